// C02 — block writes are validated as a whole and are all-or-nothing.
#include "props/reg_glue.hpp"
#include <set>
#include <memory>
using namespace rg;

// a case = table + storage content + touched marks + one block write
struct Case { TableD t; std::vector<std::vector<uint16_t>> content; std::vector<bool> touched; uint32_t addr; uint32_t n; std::vector<uint16_t> words; int pre = 0; int view = 0; unsigned lock = 0; };   // view 1: a second table (another view over the same area array, with a few more registers) is initialised after this one   // pre k > 0: before the write register_sanitise ran while the callback-backed areas' device stopped answering after k-1 reads
static Case g_cur;
static std::string ser_case(const Case &c) {
    std::string s = rm::ser(c.t);
    for (size_t i = 0; i < c.content.size(); i++) { s += vp::fmt("content %zu", i); for (uint16_t w : c.content[i]) s += vp::fmt(" %u", w); s += "\n"; }
    s += "touched"; for (bool b : c.touched) s += b ? " 1" : " 0"; s += "\n";
    if (c.pre) s += vp::fmt("pre %d\n", c.pre);
    if (c.view) s += vp::fmt("view %d\n", c.view);
    if (c.lock) s += vp::fmt("lock %u\n", c.lock);
    s += vp::fmt("bw %u %u", c.addr, c.n); for (uint16_t w : c.words) s += vp::fmt(" %u", w); s += "\n";
    return s;
}

struct Expect { bool ok; bool ro = false, unmapped = false, invalid = false, range = false; uint32_t ro_at = 0, unmapped_at = 0, invalid_at = 0, range_at = 0; std::vector<size_t> overlapped; };
static Expect predict(const TableD &t, const rm::Space &m, uint32_t addr, uint32_t n, const uint16_t *w) {
    Expect e; e.ok = true;
    if (n == 0) return e;
    for (uint32_t i = 0; i < n; i++) {
        int a = m.area_of(addr + i);
        if (a < 0) { if (!e.unmapped) { e.unmapped = true; e.unmapped_at = addr + i; } }
        else if (!t.areas[(size_t)a].can_block_write()) { if (!e.ro) { e.ro = true; e.ro_at = addr + i; } }
    }
    for (size_t ri = 0; ri < t.regs.size(); ri++) {
        const RegD &r = t.regs[ri];
        if (r.end() <= addr || r.addr >= addr + n) continue;
        e.overlapped.push_back(ri);
        uint16_t img[4];
        for (unsigned k = 0; k < rm::words(r.type); k++) { uint32_t ad = r.addr + k; img[k] = (ad >= addr && ad < addr + n) ? w[ad - addr] : m.word(ad); }
        uint64_t v = rm::deserialise(r.type, img, t.big);
        uint32_t at = std::max(addr, r.addr);
        if (!rm::float_ok(r.type, v)) { if (!e.invalid) { e.invalid = true; e.invalid_at = at; } }
        else if (!r.satisfied(v)) { if (!e.range) { e.range = true; e.range_at = at; } }
    }
    e.ok = !(e.ro || e.unmapped || e.invalid || e.range);
    return e;
}

// executes the case on a fresh live table; returns failure key or ""
static std::string run_case(const Case &c, std::string &msg) {
    g_cur = c;
    Live lv(c.t);
    RegisterInit in = lv.init();
    if (in.code != REG_INIT_SUCCESS) { msg = vp::fmt("valid table refused: code %d", (int)in.code); return "init:refused"; }
    std::unique_ptr<View> other;
    if (c.view) {
        other.reset(new View(lv));
        if (register_init(&other->t).code != REG_INIT_SUCCESS) other.reset();   // (a free word in an area this view cannot describe: nothing to share then)
    }
    // lock k: after initialisation the application flips the WRITEABLE flag of area (k-1)/2 (a run-time write-protect lock; k even: it takes the
    // write callback away instead). Whether a word can be written is what the description says when the write happens.
    TableD tl = c.t;
    if (c.lock && (c.lock - 1) / 2 < c.t.areas.size()) {
        size_t ai = (c.lock - 1) / 2;
        if (c.lock & 1) { lv.areas[ai].flags ^= REG_AF_WRITEABLE; tl.areas[ai].writeable = !tl.areas[ai].writeable; }
        else if (tl.areas[ai].has_write) { lv.areas[ai].write = nullptr; tl.areas[ai].has_write = false; }
    }
    const TableD &T = tl;
    rm::Space m; m.init(c.t);
    m.mem = c.content; m.touched = c.touched;
    lv.copy_from(m);
    for (size_t i = 0; i < c.t.regs.size(); i++) { if (c.touched[i]) register_touch(&lv.t, (RegisterHandle)i); else register_untouch(&lv.t, (RegisterHandle)i); }
    if (c.pre) {
        // history only: whatever the aborted (or completed) sanitise run restored is taken over; the block write contract is unchanged afterwards
        cb_read_faults() = c.pre - 1;
        (void)register_sanitise(&lv.t);
        cb_read_faults() = -1;
        lv.snapshot(m.mem);
        for (size_t i = 0; i < c.t.regs.size(); i++) m.touched[i] = register_was_touched(&lv.t, (RegisterHandle)i);
    }
    if (c.n > (1u << 20)) {
        // far larger than any table: must be refused (first unmapped address, or a read-only area in front of it) without reading the caller's buffer
        uint64_t a = c.addr;
        bool ro = false; uint32_t ro_at = 0;
        while (a < (1ull << 32) && m.mapped((uint32_t)a)) { const AreaD &ar = T.areas[(size_t)m.area_of((uint32_t)a)]; if (!ar.can_block_write() && !ro) { ro = true; ro_at = (uint32_t)a; } a = ar.end(); }
        vp::Block small(64 * 2);
        RegisterAccess r = register_block_write(&lv.t, c.addr, c.n, (RegisterAtom *)small.p);
        vp::count();
        if (r.code == REG_ACCESS_SUCCESS) { msg = vp::fmt("block write of %u words at %u accepted although address %llu is unmapped", c.n, c.addr, (unsigned long long)a); return "accepted:unmapped"; }
        if (lv.diff(m) >= 0) { msg = "refused huge block write changed storage"; return "refused-but-storage-changed"; }
        bool ok = (r.code == REG_ACCESS_NOENTRY && r.address == (uint32_t)a) || (r.code == REG_ACCESS_READONLY && ro && r.address == ro_at) || (r.code == REG_ACCESS_READONLY && !ro);
        if (r.code == REG_ACCESS_READONLY && !ro) {
            // a read-only area reached only after the hole (or after wrapping) is also "inside the request": accept its first address
            ok = false; for (auto &ar : T.areas) if (!ar.can_block_write() && r.address == ar.base) ok = true;
        }
        if (!ok) { msg = vp::fmt("huge write: reported %s at %u; first unmapped address %llu%s", code_name(r.code), r.address, (unsigned long long)a, ro ? vp::fmt(", read-only from %u", ro_at).c_str() : ""); return "refused:wrong-address-huge"; }
        return "";
    }
    vp::Block buf((size_t)c.n * 2);
    if (c.n) memcpy(buf.p, c.words.data(), (size_t)c.n * 2);
    Expect e = predict(T, m, c.addr, c.n, c.words.data());
    RegisterAccess a = register_block_write(&lv.t, c.addr, c.n, (RegisterAtom *)buf.p);
    vp::count();
    if (e.ok) {
        if (a.code != REG_ACCESS_SUCCESS) { msg = vp::fmt("acceptable block write [%u,+%u) refused: %s at %u", c.addr, c.n, code_name(a.code), a.address); return "refused-although-acceptable"; }
        for (uint32_t i = 0; i < c.n; i++) m.word(c.addr + i) = c.words[i];
        long d = lv.diff(m);
        if (d >= 0) { msg = vp::fmt("after the write word %ld differs from the overlay", d); return "success:storage"; }
        for (size_t ri : e.overlapped) m.touched[ri] = true;
        for (size_t i = 0; i < c.t.regs.size(); i++) if (register_was_touched(&lv.t, (RegisterHandle)i) != m.touched[i]) { msg = vp::fmt("touched mark of register %zu is %d", i, (int)!m.touched[i]); return "success:touched-marks"; }
        return "";
    }
    if (a.code == REG_ACCESS_SUCCESS) {
        msg = vp::fmt("block write [%u,+%u) accepted although:%s%s%s%s", c.addr, c.n, e.ro ? " read-only" : "", e.unmapped ? " unmapped" : "", e.invalid ? " invalid" : "", e.range ? " out-of-range" : "");
        return e.range ? "accepted:constraint-violated" : e.invalid ? "accepted:undecodable" : e.ro ? "accepted:read-only" : "accepted:unmapped";
    }
    long d = lv.diff(m);
    if (d >= 0) { msg = vp::fmt("refused block write changed word %ld", d); return "refused-but-storage-changed"; }
    for (size_t i = 0; i < c.t.regs.size(); i++) if (register_was_touched(&lv.t, (RegisterHandle)i) != m.touched[i]) { msg = "touched mark changed by a refused write"; return "refused-but-touched-marks-changed"; }
    bool match = (a.code == REG_ACCESS_READONLY && e.ro && a.address == e.ro_at) || (a.code == REG_ACCESS_NOENTRY && e.unmapped && a.address == e.unmapped_at) ||
                 (a.code == REG_ACCESS_INVALID && e.invalid && a.address == e.invalid_at) || (a.code == REG_ACCESS_RANGE && e.range && a.address == e.range_at);
    if (!match) {
        msg = vp::fmt("reported %s at %u; present:%s%s%s%s", code_name(a.code), a.address, e.ro ? vp::fmt(" read-only@%u", e.ro_at).c_str() : "", e.unmapped ? vp::fmt(" unmapped@%u", e.unmapped_at).c_str() : "",
                      e.invalid ? vp::fmt(" invalid@%u", e.invalid_at).c_str() : "", e.range ? vp::fmt(" out-of-range@%u", e.range_at).c_str() : "");
        bool classok = (a.code == REG_ACCESS_READONLY && e.ro) || (a.code == REG_ACCESS_NOENTRY && e.unmapped) || (a.code == REG_ACCESS_INVALID && e.invalid) || (a.code == REG_ACCESS_RANGE && e.range);
        return classok ? std::string("refused:wrong-address:") + code_name(a.code) : "refused:wrong-class";
    }
    return "";
}

// tables with an area that ends exactly at 2^32: (a) a block write inside that area is an ordinary one; (b) a request that runs over the top of
// the address space (addr + n > 2^32) names addresses that do not exist and must be refused without changing anything - also when the words
// that would "wrap" to address 0 carry acceptable values
static void top_area_phase() {
    for (uint32_t topsize : {1u, 2u, 8u, 0x100u}) for (int big = 0; big < 2; big++) {
        {
            std::string rep = vp::fmt("top %u %d inside\n", topsize, big);
            vp::CaseScope scope([&] { return rep; });
            TopTable T(topsize, false, big);
            if (register_init(&T.t).code != REG_INIT_SUCCESS) { vp::fail("top-area:init-refused", "a table whose last area ends at 2^32 (no registers in it) is refused", rep); continue; }
            uint16_t w[2] = {0x1111, 0x2222}; uint32_t n = topsize < 2 ? 1 : 2;
            RegisterAccess a = register_block_write(&T.t, T.areas[1].base, n, w);
            vp::count(); vp::cls("top-area:write-inside");
            if (a.code != REG_ACCESS_SUCCESS) {
                if (vp::excluded("top-area:write-refused")) vp::stats().excluded++;
                else vp::fail("top-area:write-refused", vp::fmt("block write [%u,+%u) into an area that ends at 2^32: %s at %u", T.areas[1].base, n, code_name(a.code), a.address), rep);
            } else if (memcmp(T.top, w, n * 2) != 0) vp::fail("top-area:write-lost", "successful block write into the top area did not reach its storage", rep);
        }
        for (uint32_t k : {1u, 2u, 8u}) for (uint32_t j : {1u, 2u, 3u, 6u}) for (int good = 0; good < 2; good++) {
            if (k > topsize) continue;
            std::string rep = vp::fmt("top %u %d wrap %u %u %d\n", topsize, big, k, j, good);
            vp::CaseScope scope([&] { return rep; });
            TopTable T(topsize, false, big);
            if (register_init(&T.t).code != REG_INIT_SUCCESS) continue;
            std::vector<uint16_t> w(k + j, 0x3333);
            // what would land on addresses 0, 1, 2.. if the request wrapped: acceptable (50, 60, 0, 0) or not (5, 300, 0x7fff, 0x7fff)
            static const uint16_t GOOD[6] = {50, 60, 0, 0, 1, 2}, BAD[6] = {5, 300, 0x7fff, 0x7fff, 1, 2};
            for (uint32_t i = 0; i < j && i < 6; i++) w[k + i] = good ? GOOD[i] : BAD[i];
            uint16_t low0[8], top0[0x100]; memcpy(low0, T.low, sizeof low0); memcpy(top0, T.top, sizeof top0);
            vp::Block buf((size_t)(k + j) * 2); memcpy(buf.p, w.data(), (size_t)(k + j) * 2);
            RegisterAccess a = register_block_write(&T.t, (uint32_t)(0u - k), k + j, (RegisterAtom *)buf.p);
            vp::count(); vp::cls("top-area:wrapping-write"); vp::nontrivial(vp::fnv(rep));
            if (a.code == REG_ACCESS_SUCCESS) { vp::fail("top-area:wrapping-write-accepted", vp::fmt("block write [%u,+%u) runs over the top of the address space and was accepted%s", (uint32_t)(0u - k), k + j, T.low_invariant() ? "" : "; a constrained register at address 0.. now holds a value outside its constraint"), rep); continue; }
            if (memcmp(low0, T.low, sizeof low0) != 0 || memcmp(top0, T.top, sizeof top0) != 0) vp::fail("top-area:refused-but-storage-changed", "refused wrapping block write changed storage", rep);
        }
    }
}
static void run() {
    auto &a = vp::args();
    vp::CaseScope scope([] { return ser_case(g_cur); });
    size_t ntables = (a.thorough() ? 40000 : 3000) / a.nshards;
    vp::stats().rule = vp::fmt("enum: %zu generated valid tables per shard; for each table every (address, length) in a window from 2 below the first area to 2 behind the last x 7 word patterns "
                               "(current content; one overlapped register driven to its bound -1/0/+1 through the words inside the window only; non-finite halves for float registers; all-ones; "
                               "all-zero; random; the current content after one overlapped register was corrupted out of band), applied as a history (content evolves); a quarter of the writes are repeated while a second table - another view over the same RegisterArea array with up to three more registers, initialised later - exists; a quarter of the writes on tables with a callback-backed area are repeated after a register_sanitise run that a device fault (read callback reports an I/O error from its k-th call on) cut short; oracle = overlay on the flat model + per-register decode/constraint + failure class with first address + "
                               "touched marks + exact-size caller buffer under ASan", ntables);
    if (a.shard == 0) top_area_phase();
    vp::Rng rng(a.seed * 8191 + a.shard);
    FamilyOpts fo; fo.max_size = 8;
    FamilyOpts big; big.max_areas = 6; big.max_size = 20; big.max_regs = 12;   // thorough tier: every 8th table is a larger one
    FamilyOpts wide; wide.huge = 2; wide.many = 2; wide.max_size = 8;             // every 60th table: an area beyond 2^16 words, or 32..70 registers
    for (size_t ti = 0; ti < ntables && !vp::too_many_failures(); ti++) {
        TableD t = gen_table(rng, (ti % 60 == 59) ? wide : (a.thorough() && ti % 8 == 7) ? big : fo);
        rm::Space m; m.init(t);
        for (size_t i = 0; i < t.areas.size(); i++) if (!t.areas[i].membacked) for (uint32_t k = 0; k < t.areas[i].size; k++) m.mem[i][k] = (uint16_t)(0xbeef + k);
        m.load_defaults();
        // registers of areas that do not load defaults may hold anything: give them a decodable content
        for (auto &r : t.regs) if (!m.sane(r) && r.ckind != rm::C_FAIL) m.store(r, rm::canon(r.type, r.def));
        bool has_cb = false; for (auto &ar : t.areas) if (!ar.membacked && ar.has_read) has_cb = true;
        uint32_t lo = t.areas.front().base >= 2 ? t.areas.front().base - 2 : 0, hi = t.areas.back().end() + 2;
        std::vector<std::pair<uint32_t, uint32_t>> windows;
        if (hi - lo <= 120) { for (uint32_t addr = lo; addr < hi; addr++) for (uint32_t n = 0; addr + n <= hi; n++) windows.push_back({addr, n}); }
        else {
            // a table with an area beyond 2^16 words: windows around every area edge and every register, plus blocks longer than 2^16 words
            std::set<std::pair<uint32_t, uint32_t>> ws;
            auto around = [&](uint32_t center, uint32_t maxn) { for (long d = -2; d <= 2; d++) { long ad = (long)center + d; if (ad < (long)lo || ad >= (long)hi) continue; for (uint32_t n = 0; n <= maxn && (uint32_t)ad + n <= hi; n++) ws.insert({(uint32_t)ad, n}); } };
            for (auto &ar : t.areas) { around(ar.base, 4); around(ar.end(), 4); }
            for (auto &r : t.regs) { around(r.addr, 6); around(r.end(), 3); }
            for (auto &ar : t.areas) { ws.insert({ar.base, ar.size}); if (ar.size > 1) ws.insert({ar.base + 1, ar.size - 1}); }
            for (auto &ar : t.areas) if (ar.size > 0x10000u) for (uint32_t off : {0u, 1u, 3u}) for (uint32_t n : {0x10000u, 0x10001u, ar.size - off, ar.size - off - 1}) if (off + n <= ar.size + 2) ws.insert({ar.base + off, n});
            windows.assign(ws.begin(), ws.end());
        }
        for (auto &wn : windows) { uint32_t addr = wn.first, n = wn.second;
                for (int pat = 0; pat < 7; pat++) {
                    if (n == 0 && pat > 0) continue;
                    if (pat == 6) {
                        // out-of-band corruption: one overlapped register is driven across its bound (or to a non-finite float) behind the library's back,
                        // then the block carries exactly what the storage holds now - a read-modify-write of the neighbourhood must still be refused
                        std::vector<size_t> cand;
                        for (size_t ri = 0; ri < t.regs.size(); ri++) if (t.regs[ri].end() > addr && t.regs[ri].addr < addr + n && ((t.regs[ri].ckind >= rm::C_MIN && t.regs[ri].ckind <= rm::C_RANGE) || rm::is_float(t.regs[ri].type))) cand.push_back(ri);
                        if (cand.empty() || !rng.chance(1, 3)) continue;
                        const RegD &r = t.regs[cand[rng.below(cand.size())]];
                        uint64_t target = rm::is_float(r.type) && (r.ckind < rm::C_MIN || r.ckind > rm::C_RANGE || rng.chance(1, 2)) ? rng.pick(special_floats(r.type))
                                          : (r.ckind == rm::C_MAX || (r.ckind == rm::C_RANGE && rng.chance(1, 2))) ? step(r.type, r.hi, 1) : step(r.type, r.lo, -1);
                        m.store(r, rm::canon(r.type, target));
                        vp::cls("storage-corrupted-out-of-band-then-rewritten");
                    }
                    if ((hi - lo) > 24 && n > 10 && (n % 3) != 0 && pat > 1) continue;   // thin out long windows on wide tables
                    Case c; c.t = t; c.content = m.mem; c.touched = m.touched; c.addr = addr; c.n = n; c.words.resize(n);
                    for (uint32_t i = 0; i < n; i++) c.words[i] = m.mapped(addr + i) ? m.word(addr + i) : (uint16_t)0x1111;
                    bool partial = false, special = false;
                    std::vector<size_t> ov;
                    for (size_t ri = 0; ri < t.regs.size(); ri++) if (t.regs[ri].end() > addr && t.regs[ri].addr < addr + n) { ov.push_back(ri); if (t.regs[ri].addr < addr || t.regs[ri].end() > addr + n) partial = true; }
                    switch (pat) {
                    case 0: break;
                    case 1: case 2: if (!ov.empty()) {
                        const RegD &r = t.regs[ov[rng.below(ov.size())]];
                        uint64_t target;
                        if (pat == 1 && r.ckind >= rm::C_MIN && r.ckind <= rm::C_RANGE) { target = step(r.type, (r.ckind == rm::C_MAX || (r.ckind == rm::C_RANGE && rng.chance(1, 2))) ? r.hi : r.lo, (int)rng.range(-1, 1)); special = true; }
                        else if (pat == 2 && rm::is_float(r.type)) { target = rng.pick(special_floats(r.type)); special = true; }
                        else target = gen_for(rng, r);
                        uint16_t img[4]; rm::serialise(r.type, target, t.big, img);
                        for (unsigned k = 0; k < rm::words(r.type); k++) { uint32_t ad = r.addr + k; if (ad >= addr && ad < addr + n) c.words[ad - addr] = img[k]; }
                    } break;
                    case 3: for (auto &w : c.words) w = 0xffff; break;
                    case 4: for (auto &w : c.words) w = 0; break;
                    default: for (auto &w : c.words) w = (uint16_t)rng.next(); break;
                    }
                    std::string msg, key = run_case(c, msg);
                    if (!key.empty()) { vp::fail(key, msg, ser_case(c)); continue; }
                    if (has_cb && (pat == 0 || pat == 1 || pat == 5) && rng.chance(1, 4)) {
                        // side branch: the same write after a register_sanitise run that was cut short by a device fault
                        Case s2 = c; s2.pre = 1 + (int)rng.below(4);
                        std::string m2, k2 = run_case(s2, m2);
                        if (!k2.empty()) vp::fail(k2, m2, ser_case(s2));
                        vp::cls("write-after-sanitise-cut-short-by-device-fault");
                    }
                    if ((pat == 0 || pat == 1 || pat == 3) && rng.chance(1, 4)) {
                        // side branch: the same write through this table while a second view over the same areas exists (initialised later)
                        Case s3 = c; s3.view = 1;
                        std::string m3, k3 = run_case(s3, m3);
                        if (!k3.empty()) vp::fail(k3, m3, ser_case(s3));
                        vp::cls("write-while-a-second-view-shares-the-areas");
                    }
                    if ((pat == 0 || pat == 4 || pat == 5) && rng.chance(1, 5)) {
                        // side branch: the same write after the application write-protected (or unlocked) one area at run time, without re-initialising
                        Case s4 = c; s4.lock = 1 + (unsigned)rng.below(2 * t.areas.size());
                        std::string m4, k4 = run_case(s4, m4);
                        if (!k4.empty()) vp::fail(k4, m4, ser_case(s4));
                        vp::cls("write-after-run-time-write-protect-change");
                    }
                    // evolve the history
                    Expect e = predict(t, m, addr, n, c.words.data());
                    if (e.ok) { for (uint32_t i = 0; i < n; i++) m.word(addr + i) = c.words[i]; for (size_t ri : e.overlapped) m.touched[ri] = true; vp::cls("write-accepted"); }
                    else vp::cls(e.range ? "write-refused-constraint" : e.invalid ? "write-refused-undecodable" : e.ro ? "write-refused-read-only" : "write-refused-unmapped");
                    bool spans = false; { int a0 = -2; for (uint32_t i = 0; i < n; i++) { int ar = m.area_of(addr + i); if (a0 != -2 && ar != a0) spans = true; a0 = ar; } }
                    if ((partial && special) || (spans && pat >= 1)) { vp::nontrivial(vp::fnv(ser_case(c))); vp::cls(partial && special ? "partial-overlap-with-adversarial-pattern" : "window-spans-areas-or-hole"); }
                    if (vp::want_sample() && n < 64) vp::sample(ser_case(c));
                }
        }
        // lengths near 2^31 / 2^32
        for (auto &ar : t.areas) for (uint32_t off : {0u, 1u, 2u, 5u}) {
            if (off >= ar.size + 2) continue;
            for (uint32_t n : {0x7fffffffu, 0x80000000u, 0xfffffffbu, 0xfffffffdu, 0xfffffffeu, 0xffffffffu}) {
                Case c; c.t = t; c.content = m.mem; c.touched = m.touched; c.addr = ar.base + off; c.n = n;
                std::string msg, key = run_case(c, msg);
                if (!key.empty()) vp::fail(key, msg, ser_case(c));
                vp::nontrivial(vp::mix(vp::fnv(rm::ser(t)), ((uint64_t)c.addr << 32) | n)); vp::cls("write-length-near-2^32");
            }
        }
        if (rng.chance(1, 4)) for (size_t i = 0; i < m.touched.size(); i++) m.touched[i] = false;
    }
}
static bool replay(const std::string &text) {
    if (text.rfind("top ", 0) == 0) { top_area_phase(); return vp::stats().failures.empty(); }
    Case c; std::vector<std::string> rest;
    if (!rm::parse(text, c.t, rest)) return false;
    c.content.resize(c.t.areas.size());
    for (auto &l : rest) {
        auto w = vp::split(l);
        if (w.empty()) continue;
        if (w[0] == "content" && w.size() >= 2) { size_t i = strtoull(w[1].c_str(), 0, 10); if (i < c.content.size()) for (size_t k = 2; k < w.size(); k++) c.content[i].push_back((uint16_t)strtoul(w[k].c_str(), 0, 10)); }
        else if (w[0] == "pre" && w.size() >= 2) c.pre = atoi(w[1].c_str());
        else if (w[0] == "view" && w.size() >= 2) c.view = atoi(w[1].c_str());
        else if (w[0] == "lock" && w.size() >= 2) c.lock = (unsigned)atoi(w[1].c_str());
        else if (w[0] == "touched") for (size_t k = 1; k < w.size(); k++) c.touched.push_back(w[k] == "1");
        else if (w[0] == "bw" && w.size() >= 3) { c.addr = (uint32_t)strtoul(w[1].c_str(), 0, 10); c.n = (uint32_t)strtoul(w[2].c_str(), 0, 10); for (size_t k = 3; k < w.size(); k++) c.words.push_back((uint16_t)strtoul(w[k].c_str(), 0, 10)); }
    }
    for (size_t i = 0; i < c.t.areas.size(); i++) c.content[i].resize(c.t.areas[i].size);
    c.touched.resize(c.t.regs.size()); if (c.n <= (1u << 20)) c.words.resize(c.n);
    vp::CaseScope scope([] { return ser_case(g_cur); });
    std::string msg, key = run_case(c, msg);
    if (!key.empty()) printf("[replay] key=%s %s\n", key.c_str(), msg.c_str());
    return key.empty();
}
VP_MAIN(run, replay)
