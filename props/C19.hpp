// C19 — ring buffer vs. bounded queue model; shared by enum and rapidcheck engines.
#pragma once
#include "support/vp.hpp"
#include "support/ufw.hpp"
#include "shims/rings.h"
#include <deque>
#include <cmath>

namespace c19 {

enum Kind : int { PUT, GET, CLEAR, OVR_ON, OVR_OFF, NKINDS };
static const char *kind_name[] = {"put", "get", "clear", "override-on", "override-off"};
struct Op { int kind; int64_t v; };
struct Phase { int kind; size_t count; };
struct Case { int type; size_t cap; std::vector<Op> ops; std::vector<Phase> phases; };   // type 0: octet_ring 1: u32 2: s16 3: double 4: uint8_t * (pointer ring); phases: scripted bulk steps, observed after each phase

inline std::string serialise(const Case &c, size_t upto = (size_t)-1) {
    std::string s = vp::fmt("ring %d %zu\n", c.type, c.cap);
    for (size_t i = 0; i < c.ops.size() && i < upto; i++) s += vp::fmt("%s %lld\n", kind_name[c.ops[i].kind], (long long)c.ops[i].v);
    for (auto &p : c.phases) s += vp::fmt("phase %s %zu\n", kind_name[p.kind], p.count);
    return s;
}
inline bool parse(const std::string &text, Case &c) {
    bool have = false; c.ops.clear();
    for (auto &l : vp::lines(text)) {
        auto w = vp::split(l);
        if (w.empty()) continue;
        if (w[0] == "ring" && w.size() == 3) { c.type = atoi(w[1].c_str()); c.cap = strtoull(w[2].c_str(), 0, 10); have = true; continue; }
        if (w[0] == "phase" && w.size() == 3) { int k = -1; for (int i = 0; i < NKINDS; i++) if (w[1] == kind_name[i]) k = i; if (k < 0) return false; c.phases.push_back({k, (size_t)strtoull(w[2].c_str(), 0, 10)}); continue; }
        int k = -1;
        for (int i = 0; i < NKINDS; i++) if (w[0] == kind_name[i]) k = i;
        if (k < 0 || w.size() < 2) return false;
        c.ops.push_back({k, strtoll(w[1].c_str(), 0, 10)});
    }
    return have && c.cap > 0 && c.type >= 0 && c.type <= 3;
}

// element <-> model key: integral element types are the key itself; the double ring stores (key - 20) / 8, i.e. negative and fractional
// values (an element that travels through an integer on its way is then no longer what was put in)
template <class T> inline T to_elem(int64_t v) { return (T)v; }
template <> inline double to_elem<double>(int64_t v) { return v == 7 ? -0.0 : (double)(v - 20) / 8.0; }   // key 7 is the negative zero (key 20 the positive one)
template <class T> inline int64_t from_elem(T x) { return (int64_t)x; }
// the pointer ring stores addresses inside a static arena, 0x1000 apart and above 4 GiB (so that no part of the pointer is redundant); key 0 is the null pointer
inline uint8_t *ptr_arena() { return (uint8_t *)(uintptr_t)0x7a5b00000000ull; }
template <> inline uint8_t *to_elem<uint8_t *>(int64_t v) { return v == 0 ? nullptr : ptr_arena() + v * 0x1001; }
template <> inline int64_t from_elem<uint8_t *>(uint8_t *x) { if (!x) return 0; int64_t d = (int64_t)(x - ptr_arena()); return d % 0x1001 == 0 ? d / 0x1001 : INT64_MIN + 9; }
template <> inline int64_t from_elem<double>(double x) { if (x == 0.0 && std::signbit(x)) return 7 - 20; double k = x * 8.0; return (k == (double)(int64_t)k) ? (int64_t)k : INT64_MIN + 7; }

// uniform view on the instantiations
template <class R, class T> struct Api {
    void (*init)(R *, T *, size_t);
    size_t (*size)(const R *);
    bool (*empty)(const R *);
    bool (*full)(const R *);
    void (*clear)(R *);
    T (*get)(R *);
    void (*put)(R *, T);
    void (*ovr)(R *, int);   // through a C wrapper: the argument is whatever integer the caller has, converted by the callee's declared parameter type
    void (*iter)(rb_iter *, const R *, rb_iter_mode);
    T (*inspect)(const R *, const rb_iter *);
};
#define C19_API(NAME, T) Api<NAME, T>{NAME##_init, NAME##_size, NAME##_empty, NAME##_full, NAME##_clear, NAME##_get, NAME##_put, vp_##NAME##_ovr, NAME##_iter, NAME##_inspect}

struct Model { size_t cap; bool ovr = false; std::deque<int64_t> q; };

template <class R, class T> struct Ring {
    Api<R, T> api; R r; T *mem; size_t cap;
    Ring(const Api<R, T> &a, size_t cap_) : api(a), cap(cap_) { mem = (T *)malloc(sizeof(T) * cap); for (size_t i = 0; i < cap; i++) mem[i] = (T)0x5a; api.init(&r, mem, cap); }
    Ring(const Ring &o) : api(o.api), r(o.r), cap(o.cap) { mem = (T *)malloc(sizeof(T) * cap); memcpy(mem, o.mem, sizeof(T) * cap); r.data = mem; }
    ~Ring() { free(mem); }

    // observers vs model; "" or failure tag
    std::string observe(const Model &m) const {
        if (r.data != mem || r.datasize != cap) return "descriptor-changed";
        if (api.size(&r) != m.q.size()) return "size";
        if (api.empty(&r) != m.q.empty()) return "empty";
        if (api.full(&r) != (m.q.size() == m.cap)) return "full";
        rb_iter it;
        api.iter(&it, &r, RING_BUFFER_ITER_OLD_TO_NEW);
        size_t n = 0;
        for (; !rb_iter_done(&it); rb_iter_advance(&it), n++) {
            if (n >= m.q.size()) return "iter-old-to-new-too-long";
            if (from_elem<T>(api.inspect(&r, &it)) != m.q[n]) return "iter-old-to-new-element";
        }
        if (n != m.q.size()) return "iter-old-to-new-steps";
        api.iter(&it, &r, RING_BUFFER_ITER_NEW_TO_OLD);
        n = 0;
        for (; !rb_iter_done(&it); rb_iter_advance(&it), n++) {
            if (n >= m.q.size()) return "iter-new-to-old-too-long";
            if (from_elem<T>(api.inspect(&r, &it)) != m.q[m.q.size() - 1 - n]) return "iter-new-to-old-element";
        }
        if (n != m.q.size()) return "iter-new-to-old-steps";
        return "";
    }
    // the same transition without the O(size) observation (for scripted phases at large capacities)
    std::string step_quiet(Model &m, const Op &op) {
        switch (op.kind) {
        case PUT:
            api.put(&r, to_elem<T>(op.v));
            if (m.q.size() < m.cap) m.q.push_back(from_elem<T>(to_elem<T>(op.v)));
            else if (m.ovr) { m.q.pop_front(); m.q.push_back(from_elem<T>(to_elem<T>(op.v))); }
            break;
        case GET: {
            int64_t got = from_elem<T>(api.get(&r)), want = 0;
            if (!m.q.empty()) { want = m.q.front(); m.q.pop_front(); }
            if (got != want) return "get:wrong-element";
            break;
        }
        case CLEAR: api.clear(&r); m.q.clear(); break;
        case OVR_ON: { static const int ON[6] = {1, 2, 0x100, 0xff00, -1, (int)0x80000000}; api.ovr(&r, ON[(size_t)(op.v < 0 ? -op.v : op.v) % 6]); m.ovr = true; break; }
        case OVR_OFF: api.ovr(&r, false); m.ovr = false; break;
        }
        return "";
    }
    std::string step(Model &m, const Op &op) {
        switch (op.kind) {
        case PUT:
            api.put(&r, to_elem<T>(op.v));
            if (m.q.size() < m.cap) m.q.push_back(from_elem<T>(to_elem<T>(op.v)));
            else if (m.ovr) { m.q.pop_front(); m.q.push_back(from_elem<T>(to_elem<T>(op.v))); }
            break;
        case GET: {
            int64_t got = from_elem<T>(api.get(&r));
            int64_t want = 0;
            if (!m.q.empty()) { want = m.q.front(); m.q.pop_front(); }
            if (got != want) return "get:wrong-element";
            break;
        }
        case CLEAR: api.clear(&r); m.q.clear(); break;
        case OVR_ON: { static const int ON[6] = {1, 2, 0x100, 0xff00, -1, (int)0x80000000}; api.ovr(&r, ON[(size_t)(op.v < 0 ? -op.v : op.v) % 6]); m.ovr = true; break; }
        case OVR_OFF: api.ovr(&r, false); m.ovr = false; break;
        }
        std::string o = observe(m);
        if (!o.empty()) return std::string(kind_name[op.kind]) + ":" + o;
        return "";
    }
};

template <class R, class T> std::string run_typed(const Api<R, T> &api, const Case &c) {
    Ring<R, T> ring(api, c.cap);
    Model m; m.cap = c.cap;
    std::string o = ring.observe(m);
    if (!o.empty()) return "init:" + o;
    for (auto &op : c.ops) { std::string r = ring.step(m, op); if (!r.empty()) return r; }
    uint64_t counter = 1;
    for (auto &ph : c.phases) {
        for (size_t i = 0; i < ph.count; i++) { std::string r = ring.step_quiet(m, Op{ph.kind, (int64_t)((counter++ % 250) + 1)}); if (!r.empty()) return "phase:" + r; }
        std::string o = ring.observe(m);
        if (!o.empty()) return std::string("phase:") + kind_name[ph.kind] + ":" + o;
    }
    return "";
}
inline std::string run_case(const Case &c) {
    switch (c.type) {
    case 0: return run_typed(C19_API(octet_ring, uint8_t), c);
    case 1: return run_typed(C19_API(u32_ring, uint32_t), c);
    case 2: return run_typed(C19_API(s16_ring, int16_t), c);
    case 3: return run_typed(C19_API(f64_ring, double), c);
    default: return run_typed(C19_API(ptr_ring, uint8_t *), c);
    }
}

} // namespace c19
