// C05 — register constraints are an invariant of every checked-operation history (rapidcheck, stateful).
#include <memory>
#include "support/rc.hpp"
#include "props/reg_glue.hpp"
using namespace rg;

enum Kind { SET, BITSET, BITCLR, BWRITE, SANITISE, CORRUPT, BWCUR, MODE, NKINDS };   // MODE: the application state the callback validators consult changes (rm::cb_mode)   // BWCUR: block write of raw words = current content of [addr, addr+raw) with `words` patched in at offset h
static const char *kname[] = {"set", "bitset", "bitclr", "bwrite", "sanitise", "corrupt", "bwcur", "mode"};
struct Op { int kind; uint32_t h; int vtype; uint64_t raw; uint32_t addr; std::vector<uint16_t> words; };
struct Case { uint64_t tseed; bool with_fail; TableD t; std::vector<Op> ops; };

static std::string ser_case(const Case &c, size_t upto = (size_t)-1) {
    std::string s = rm::ser(c.t);
    for (size_t i = 0; i < c.ops.size() && i < upto; i++) {
        const Op &o = c.ops[i];
        s += vp::fmt("op %s %u %s %llu %u", kname[o.kind], o.h, rm::type_name[o.vtype], (unsigned long long)o.raw, o.addr);
        for (uint16_t w : o.words) s += vp::fmt(" %u", w);
        s += "\n";
    }
    return s;
}
static size_t g_failed_at = 0;

static std::string run_case(const Case &c, std::string &msg, bool classify) {
    const TableD &t = c.t;
    Live lv(t);
    RegisterInit in = lv.init();
    if (in.code != REG_INIT_SUCCESS) { msg = vp::fmt("valid table refused: code %d", (int)in.code); return "init:refused"; }
    rm::cb_mode() = 0;
    struct ModeReset { ~ModeReset() { rm::cb_mode() = 0; } } mode_reset;
    rm::Space m; m.init(t);
    for (size_t i = 0; i < t.areas.size(); i++) if (!t.areas[i].membacked) for (uint32_t k = 0; k < t.areas[i].size; k++) m.mem[i][k] = (uint16_t)(0xbeef + k);
    m.load_defaults();
    if (lv.diff(m) >= 0) { msg = "storage after init differs from the model"; return "init:storage"; }
    bool corrupted = false, had_bw_ok = false, refused_after_bw = false, kept = false, reset = false;
    auto invariant = [&](const char *when) -> std::string {
        for (size_t ri = 0; ri < t.regs.size(); ri++) {
            const RegD &r = t.regs[ri];
            if (r.ckind < rm::C_MIN) continue;
            uint16_t img[4]; int ar = m.area_of(r.addr);
            for (unsigned k = 0; k < rm::words(r.type); k++) img[k] = lv.storage[(size_t)ar][r.addr - t.areas[(size_t)ar].base + k];
            uint64_t v = rm::deserialise(r.type, img, t.big);
            if (!rm::float_ok(r.type, v) || !r.satisfied(v)) { msg = vp::fmt("%s register %zu (%s, %s) holds %llx which violates its constraint", when, ri, rm::type_name[r.type], rm::ckind_name[r.ckind], (unsigned long long)v); return "invariant-broken"; }
        }
        return "";
    };
    for (size_t i = 0; i < c.ops.size(); i++) {
        g_failed_at = i + 1;
        const Op &o = c.ops[i];
        std::vector<std::vector<uint16_t>> before; lv.snapshot(before);
        std::string nm = kname[o.kind];
        bool refused_expected = false;
        switch (o.kind) {
        case SET: {
            RegisterAccess a = register_set(&lv.t, o.h, to_value(o.vtype, o.raw));
            if (o.h >= t.regs.size()) { refused_expected = true; if (a.code == REG_ACCESS_SUCCESS) { msg = "set with a bad handle accepted"; return "set:bad-handle-accepted"; } break; }
            const RegD &r = t.regs[o.h]; uint64_t v = rm::canon(r.type, o.raw);
            refused_expected = o.vtype != r.type || !rm::float_ok(r.type, v) || !r.satisfied(v) || !t.areas[(size_t)m.area_of(r.addr)].has_write;
            if (refused_expected) { if (a.code == REG_ACCESS_SUCCESS) { msg = vp::fmt("set(%zu, %s %llx) accepted against constraint %s", (size_t)o.h, rm::type_name[o.vtype], (unsigned long long)o.raw, rm::ckind_name[r.ckind]); return "set:accepted-although-must-refuse"; } }
            else { if (a.code != REG_ACCESS_SUCCESS) { msg = vp::fmt("acceptable set refused: %s", code_name(a.code)); return "set:refused-although-acceptable"; } m.store(r, v); }
            break; }
        case BITSET: case BITCLR: {
            RegisterAccess a = o.kind == BITSET ? register_bit_set(&lv.t, o.h, to_value(o.vtype, o.raw)) : register_bit_clear(&lv.t, o.h, to_value(o.vtype, o.raw));
            if (o.h >= t.regs.size()) { refused_expected = true; if (a.code == REG_ACCESS_SUCCESS) { msg = "bit operation with a bad handle accepted"; return nm + ":bad-handle-accepted"; } break; }
            const RegD &r = t.regs[o.h];
            uint64_t cur = m.load(r), mask = rm::canon(r.type, o.raw);
            uint64_t nv = rm::canon(r.type, o.kind == BITSET ? (cur | mask) : (cur & ~mask));
            bool operand_ok = rm::is_unsigned(r.type) && o.vtype == r.type;
            refused_expected = !operand_ok || !r.satisfied(nv) || !t.areas[(size_t)m.area_of(r.addr)].has_write;
            if (!operand_ok && a.code == REG_ACCESS_SUCCESS) { msg = vp::fmt("%s on %s register with %s operand accepted", nm.c_str(), rm::type_name[r.type], rm::type_name[o.vtype]); return nm + ":bad-operand-accepted"; }
            if (refused_expected) { if (a.code == REG_ACCESS_SUCCESS) { msg = vp::fmt("%s result %llx violates the constraint but was accepted", nm.c_str(), (unsigned long long)nv); return nm + ":accepted-although-must-refuse"; } }
            else { if (a.code != REG_ACCESS_SUCCESS) { msg = vp::fmt("%s refused: %s", nm.c_str(), code_name(a.code)); return nm + ":refused-although-acceptable"; } m.store(r, nv); }
            break; }
        case BWRITE: case BWCUR: {
            Op full;
            if (o.kind == BWCUR) {
                full = o; full.kind = BWRITE; full.words.assign((size_t)o.raw, 0);
                for (uint32_t k = 0; k < (uint32_t)o.raw; k++) if (m.mapped(o.addr + k)) full.words[k] = m.word(o.addr + k);
                for (size_t k = 0; k < o.words.size(); k++) if (o.h + k < full.words.size()) full.words[o.h + k] = o.words[k];
                nm = "bwrite";
            }
            const Op &o = (c.ops[i].kind == BWCUR) ? full : c.ops[i];
            uint32_t n = (uint32_t)o.words.size();
            vp::Block buf((size_t)n * 2); if (n) memcpy(buf.p, o.words.data(), (size_t)n * 2);
            // prediction (same rules as C02)
            bool ok = true; std::vector<size_t> ov;
            for (uint32_t k = 0; k < n; k++) { int ar = m.area_of(o.addr + k); if (ar < 0 || !t.areas[(size_t)ar].can_block_write()) ok = false; }
            for (size_t ri = 0; ri < t.regs.size(); ri++) {
                const RegD &r = t.regs[ri];
                if (n == 0 || r.end() <= o.addr || r.addr >= o.addr + n) continue;
                ov.push_back(ri);
                uint16_t img[4];
                for (unsigned k = 0; k < rm::words(r.type); k++) { uint32_t ad = r.addr + k; img[k] = (ad >= o.addr && ad < o.addr + n) ? o.words[ad - o.addr] : m.word(ad); }
                uint64_t v = rm::deserialise(r.type, img, t.big);
                if (!rm::float_ok(r.type, v) || !r.satisfied(v)) ok = false;
            }
            RegisterAccess a = register_block_write(&lv.t, o.addr, n, (RegisterAtom *)buf.p);
            refused_expected = !ok;
            if (ok) { if (a.code != REG_ACCESS_SUCCESS) { msg = vp::fmt("acceptable block write [%u,+%u) refused: %s", o.addr, n, code_name(a.code)); return "bwrite:refused-although-acceptable"; }
                      for (uint32_t k = 0; k < n; k++) m.word(o.addr + k) = o.words[k]; for (size_t ri : ov) m.touched[ri] = true; if (n) had_bw_ok = true; }
            else if (a.code == REG_ACCESS_SUCCESS) { msg = vp::fmt("block write [%u,+%u) accepted although it must be refused", o.addr, n); return "bwrite:accepted-although-must-refuse"; }
            break; }
        case SANITISE: {
            std::vector<bool> insane(t.regs.size());
            for (size_t ri = 0; ri < t.regs.size(); ri++) insane[ri] = !m.sane(t.regs[ri]);
            // o.h != 0: during this run the (o.h/2)-th read of a callback-backed area reports unreadable content (INVALID or RANGE at the register's
            // address): that register counts as not decodable and is reset like any other; nothing else changes
            if (o.h) { OneShotRead &os = cb_read_oneshot(); os.countdown = (long)(o.h / 2); os.code = (o.h & 1) ? REG_ACCESS_INVALID : REG_ACCESS_RANGE; os.fired = false; }
            RegisterAccess a = register_sanitise(&lv.t);
            if (o.h) {
                OneShotRead &os = cb_read_oneshot(); os.countdown = -1;
                if (os.fired) { for (size_t ri = 0; ri < t.regs.size(); ri++) if (os.address >= t.regs[ri].addr && os.address < t.regs[ri].end()) insane[ri] = true; vp::cls("sanitise-with-a-driver-that-reports-unreadable-content"); }
            }
            {   // after a mode switch a register's default itself may be refused by the rule now in force: sanitise then rightly fails half-way.
                // Not judged: whatever it left is taken over, the bracket stays open.
                bool def_refused = false;
                for (size_t ri = 0; ri < t.regs.size(); ri++) if (insane[ri] && !t.regs[ri].satisfied(rm::canon(t.regs[ri].type, t.regs[ri].def))) def_refused = true;
                if (def_refused) { lv.snapshot(m.mem); for (size_t ri = 0; ri < t.regs.size(); ri++) m.touched[ri] = register_was_touched(&lv.t, (RegisterHandle)ri); vp::stats().dontcare++; continue; }
            }
            if (a.code != REG_ACCESS_SUCCESS) { msg = vp::fmt("sanitise failed: %s at %u", code_name(a.code), a.address); return "sanitise:failed"; }
            for (size_t ri = 0; ri < t.regs.size(); ri++) { if (insane[ri]) { m.store(t.regs[ri], rm::canon(t.regs[ri].type, t.regs[ri].def)); reset = true; } else if (corrupted) kept = true; m.touched[ri] = false; }
            long d = lv.diff(m);
            if (d >= 0) {
                size_t which = 0; for (size_t ri = 0; ri < t.regs.size(); ri++) if ((uint32_t)d >= t.regs[ri].addr && (uint32_t)d < t.regs[ri].end()) which = ri;
                msg = vp::fmt("after sanitise word %ld differs (register %zu was %s)", d, which, insane[which] ? "not sane: must hold its default" : "sane: must keep its value");
                return insane[which] ? "sanitise:not-reset" : "sanitise:changed-sane-register";
            }
            for (size_t ri = 0; ri < t.regs.size(); ri++) if (register_was_touched(&lv.t, (RegisterHandle)ri)) { msg = vp::fmt("touched mark of register %zu survives sanitise", ri); return "sanitise:touched-not-cleared"; }
            corrupted = false;
            std::string k = invariant("after sanitise"); if (!k.empty()) return k;
            continue; }
        case MODE:
            // from now on the callback validators answer by another rule: registers may hold values the new rule refuses until sanitise has run
            // (like after an out-of-band corruption); every validation asks the callback afresh
            rm::cb_mode() ^= 1; corrupted = true;
            continue;
        case CORRUPT: {
            int ar = m.area_of(o.addr);
            for (size_t k = 0; k < o.words.size(); k++) if (m.mapped(o.addr + (uint32_t)k)) { int a2 = m.area_of(o.addr + (uint32_t)k); uint32_t off = o.addr + (uint32_t)k - t.areas[(size_t)a2].base; lv.storage[(size_t)a2][off] = o.words[k]; m.mem[(size_t)a2][off] = o.words[k]; }
            (void)ar; corrupted = true;
            continue; }
        }
        if (refused_expected) {
            long d = lv.diff(before);
            if (d >= 0) { msg = vp::fmt("refused %s changed word %ld", nm.c_str(), d); return nm + ":refused-but-storage-changed"; }
            if (had_bw_ok) refused_after_bw = true;
        }
        long d = lv.diff(m);
        if (d >= 0) { msg = vp::fmt("after %s word %ld differs from the model", nm.c_str(), d); return nm + ":storage"; }
        for (size_t ri = 0; ri < t.regs.size(); ri++) if (register_was_touched(&lv.t, (RegisterHandle)ri) != m.touched[ri]) { msg = vp::fmt("touched mark of register %zu wrong after %s", ri, nm.c_str()); return nm + ":touched-marks"; }
        if (!corrupted) { std::string k = invariant(("after " + nm).c_str()); if (!k.empty()) return k; }
    }
    if (classify) {
        if (refused_after_bw) vp::cls("history-with-refusal-after-accepted-block-write");
        if (kept && reset) vp::cls("corrupt-sanitise-resets-some-keeps-some");
        if (refused_after_bw || (kept && reset)) vp::nontrivial(vp::fnv(ser_case(c)));
    }
    return "";
}

static rc::Gen<Case> genCase() {
    return rc::gen::exec([]() {
        Case c;
        c.tseed = *rc::gen::arbitrary<uint64_t>();
        c.with_fail = *rc::gen::weightedElement<bool>({{3, false}, {1, true}});
        vp::Rng trng(c.tseed);
        FamilyOpts fo; fo.allow_fail = c.with_fail; fo.allow_nowrite = false; fo.allow_descending = false; fo.max_size = 8; fo.max_regs = 5;   // every area is made to load its defaults below
        if (c.tseed % 8 == 7) { fo.max_areas = 6; fo.max_size = 16; fo.max_regs = 12; }   // some larger tables
        if (c.tseed % 32 == 5) fo.huge = 1;                                              // an area beyond 2^16 words with registers behind offset 0x10000
        if (c.tseed % 32 == 6) fo.many = 1;                                              // 32..70 registers
        c.t = gen_table(trng, fo);
        for (auto &a : c.t.areas) a.skip_defaults = false;
        auto tp = std::make_shared<const TableD>(c.t);   // shared: rapidcheck re-evaluates the element generators lazily while shrinking
        const TableD &t = *tp;
        uint32_t lo = t.areas.front().base >= 1 ? t.areas.front().base - 1 : 0, hi = t.areas.back().end() + 1;
        bool huge = false; for (auto &a : t.areas) if (a.size > 0x10000u) huge = true;
        size_t nops = *rc::gen::inRange<size_t>(0, huge ? 25 : 401);
        bool wf = c.with_fail;
        c.ops = *rc::gen::container<std::vector<Op>>(nops, rc::gen::exec([tp, lo, hi, wf, huge]() {
            const TableD &t = *tp;
            Op o; o.kind = *rc::gen::weightedElement<int>({{6, SET}, {2, BITSET}, {2, BITCLR}, {5, BWRITE}, {wf ? 0 : 2, SANITISE}, {wf ? 0 : 2, CORRUPT}, {huge ? 6 : 1, BWCUR}, {wf ? 0 : 1, MODE}});
            o.h = 0; o.vtype = 0; o.raw = 0; o.addr = 0;
            uint64_t sub = *rc::gen::arbitrary<uint64_t>();
            vp::Rng r(sub);   // derived deterministically from a rapidcheck-generated value (keeps the case a pure function of the generated data)
            size_t nr = t.regs.size();
            switch (o.kind) {
            case SET: case BITSET: case BITCLR:
                o.h = nr && !r.chance(1, 12) ? (uint32_t)r.below(nr) : (uint32_t)(nr + r.below(2));
                if (o.h < nr) { const RegD &reg = t.regs[o.h]; o.vtype = r.chance(1, 10) ? (int)r.below(rm::NTYPES) : reg.type;
                                o.raw = o.kind == SET ? rm::canon(o.vtype, gen_for(r, reg)) : rm::canon(o.vtype, r.chance(1, 2) ? (1ull << r.below(rm::bits(reg.type))) : (r.next() & r.next())); }
                break;
            case SANITISE:
                if (r.chance(1, 3)) o.h = 1 + (uint32_t)r.below(12);   // one read callback call of this run reports unreadable content
                break;
            case BWRITE: case CORRUPT: {
                o.addr = lo + (uint32_t)r.below(hi - lo);
                size_t n = (size_t)r.below(std::min<uint32_t>(hi - o.addr, 9) + 1);
                o.words.resize(n);
                for (auto &w : o.words) w = (uint16_t)r.next();
                if (nr && r.chance(2, 3)) {   // aim at a register: bound +-1 through the window
                    const RegD &reg = t.regs[r.below(nr)];
                    uint16_t img[4]; rm::serialise(reg.type, gen_for(r, reg), t.big, img);
                    if (r.chance(1, 2)) { o.addr = reg.addr; o.words.assign(img, img + rm::words(reg.type)); }
                    else { uint32_t k = (uint32_t)r.below(rm::words(reg.type)); o.addr = reg.addr + k; o.words.assign(img + k, img + k + 1 + r.below(rm::words(reg.type) - k)); }
                }
                break; }
            case BWCUR: {
                // a long block made of the current content with one register (or a few words) replaced
                const AreaD &ar = t.areas[r.below(t.areas.size())];
                o.addr = ar.base + (uint32_t)r.below(std::min<uint32_t>(ar.size, 4));
                uint32_t maxn = ar.end() - o.addr + (r.chance(1, 4) ? 2u : 0u);
                o.raw = ar.size > 0x10000u ? (r.chance(1, 2) ? maxn : 0x10000u + r.below(maxn > 0x10000u ? maxn - 0x10000u + 1 : 1)) : (maxn ? 1 + r.below(maxn) : 0);
                if (nr) {
                    const RegD &reg = t.regs[r.below(nr)];
                    uint16_t img[4]; rm::serialise(reg.type, gen_for(r, reg), t.big, img);
                    if (reg.addr >= o.addr) { o.h = reg.addr - o.addr; o.words.assign(img, img + rm::words(reg.type)); }
                }
                break; }
            default: break;
            }
            return o;
        }));
        return c;
    });
}

static std::string oracle(const Case &c) {
    std::string msg;
    std::string key = run_case(c, msg, true);
    vp::count(c.ops.size() + 1);
    vp::cls("histories");
    VP_SAMPLE(ser_case(c, 8) + vp::fmt("... (%zu ops)", c.ops.size()));
    if (!key.empty()) vprc::last().msg = msg;
    return key;
}
// histories on a table whose last area ends exactly at 2^32: block writes that run over the top of the address space, mixed with ordinary
// checked operations; the constrained registers at addresses 0.. keep acceptable values whatever such a request carries
static void top_area_histories() {
    for (uint32_t topsize : {2u, 8u, 0x100u}) for (int big = 0; big < 2; big++) {
        std::string rep = vp::fmt("top %u %d\n", topsize, big);
        vp::CaseScope scope([&] { return rep; });
        TopTable T(topsize, false, big);
        if (register_init(&T.t).code != REG_INIT_SUCCESS) { vp::fail("top-area:init-refused", "table refused", rep); continue; }
        static const uint16_t LAND[4][4] = {{5, 300, 0x7fff, 0x7fff}, {50, 60, 0, 0}, {0xffff, 0xffff, 0xffff, 0xffff}, {10, 200, 5, 0}};
        for (uint32_t k : {1u, 2u, 8u}) for (uint32_t j : {1u, 2u, 4u}) for (int v = 0; v < 4; v++) {
            if (k > topsize) continue;
            std::vector<uint16_t> w(k + j, 0x2222);
            for (uint32_t i = 0; i < j; i++) w[k + i] = LAND[v][i];
            (void)register_set(&T.t, 0, to_value(rm::U16, 10 + (k + j + (uint32_t)v) % 90));   // ordinary traffic in between
            vp::Block buf((size_t)(k + j) * 2); memcpy(buf.p, w.data(), (size_t)(k + j) * 2);
            RegisterAccess a = register_block_write(&T.t, (uint32_t)(0u - k), k + j, (RegisterAtom *)buf.p);
            vp::count(); vp::cls("top-area:wrapping-write-in-history");
            if (!T.low_invariant()) { vp::fail("bwrite:wrapping-write-breaks-invariant", vp::fmt("after the block write [%u,+%u) (%s) a constrained register at address 0.. holds a value outside its constraint", (uint32_t)(0u - k), k + j, code_name(a.code)), rep); return; }
            if (a.code == REG_ACCESS_SUCCESS) { vp::fail("bwrite:wrapping-write-accepted", vp::fmt("block write [%u,+%u) runs over the top of the address space and was accepted", (uint32_t)(0u - k), k + j), rep); return; }
        }
        vp::nontrivial(vp::fnv(rep));
    }
}
static void run() {
    if (vp::args().shard == 0) top_area_histories();
    vp::stats().rule = "rc: histories of up to 400 checked operations (typed set incl. bad handles and mistyped values, bit set/clear on all operand kinds, block writes aimed at constraint bounds "
                       "through partial windows, sanitise, out-of-band corruption) on generated tables whose areas all load defaults; model = flat space; after every step storage and touched marks "
                       "equal the model, refused steps change nothing, and (outside a corrupt..sanitise bracket) every min/max/range/callback register satisfies its constraint";
    vprc::check<Case>("constraints are an invariant", genCase(), oracle, [](const Case &c) { return ser_case(c, g_failed_at ? g_failed_at : (size_t)-1); });
}
static bool replay(const std::string &text) {
    if (text.rfind("top ", 0) == 0) { top_area_histories(); return vp::stats().failures.empty(); }
    Case c; std::vector<std::string> rest;
    if (!rm::parse(text, c.t, rest)) return false;
    for (auto &l : rest) {
        auto w = vp::split(l);
        if (w.size() < 6 || w[0] != "op") continue;
        Op o; o.kind = -1; for (int k = 0; k < NKINDS; k++) if (w[1] == kname[k]) o.kind = k;
        if (o.kind < 0) return false;
        o.h = (uint32_t)strtoul(w[2].c_str(), 0, 10); o.vtype = 0; for (int k = 0; k < rm::NTYPES; k++) if (w[3] == rm::type_name[k]) o.vtype = k;
        o.raw = strtoull(w[4].c_str(), 0, 10); o.addr = (uint32_t)strtoul(w[5].c_str(), 0, 10);
        for (size_t k = 6; k < w.size(); k++) o.words.push_back((uint16_t)strtoul(w[k].c_str(), 0, 10));
        c.ops.push_back(o);
    }
    std::string msg, key = run_case(c, msg, false);
    if (!key.empty()) printf("[replay] key=%s %s\n", key.c_str(), msg.c_str());
    return key.empty();
}
VP_MAIN(run, replay)
