// C10 / C11 — persistent storage: scripted medium, configurations, reference checksums.
#pragma once
#include "support/vp.hpp"
#include "support/ufw.hpp"
#include "model/crc16.hpp"
#include <ufw/persistent-storage.h>

namespace ps {

typedef std::vector<uint8_t> Bytes;
static const size_t MSIZE = (1u << 17) + 8192;   // large enough for data portions beyond 2^16 and 2^17 octets

// ---- the medium (the library's callbacks carry no context pointer)
struct Access { bool write; uint32_t addr; size_t n; };
struct Medium {
    uint8_t mem[MSIZE];
    std::vector<Access> log;
    uint32_t lo = 0, hi = MSIZE;       // the instance's region (as indices into mem); accesses outside are recorded as faults
    uint32_t origin = 0;               // the address the medium's first octet has for the library (addresses are translated by the callbacks)
    bool outside = false;
    size_t calls = 0;                  // calls with n > 0
    // single fault
    long fault_at = -1;                // index (among calls with n > 0) of the faulty call
    int fault_kind = 0;                // 0 fails: returns 0; 1 short: n-1; 2 short: 1; 3 short by 2^16 (or n/2); 4 short by 2^8 (or n/3)
    bool fault_hit = false;
    bool silent_applied = false;       // fault kinds 30/31: the write was acknowledged in full but the medium kept something else
    // crash: number of octets the medium still accepts; -1 = unlimited
    long crash_budget = -1;
    bool crashed = false;
    jmp_buf crash_jb;
    size_t octets_written = 0;
    std::vector<size_t> write_boundaries;   // cumulative octet counts after each complete write
    size_t dirty = MSIZE;              // highest index that may differ from the pattern
    // re-entrant driver: before it answers the faulty call, the driver validates a second record (a mirror) through the library
    void (*nested)() = nullptr; bool in_nested = false; int nested_ran = 0;
    void reset_pattern(size_t upto = MSIZE) { size_t n = std::max(upto, dirty); if (n > MSIZE) n = MSIZE; for (size_t i = 0; i < n; i++) mem[i] = (uint8_t)(0x30 + i * 7); dirty = upto; }
    void clear_run() { log.clear(); outside = false; calls = 0; fault_at = -1; fault_hit = false; silent_applied = false; crash_budget = -1; crashed = false; octets_written = 0; write_boundaries.clear(); nested = nullptr; in_nested = false; nested_ran = 0; }
};
inline Medium &M() { static Medium m; return m; }

inline size_t faulty(size_t n, bool &hit) {
    Medium &m = M();
    hit = false;
    if (n == 0 || m.in_nested) return n;
    size_t idx = m.calls++;
    if (m.fault_at >= 0 && (long)idx == m.fault_at) {
        hit = true; m.fault_hit = true;
        if (m.nested) { m.in_nested = true; m.nested(); m.in_nested = false; m.nested_ran++; }
        switch (m.fault_kind) {
        case 0: return 0;
        case 1: return n - 1;
        case 2: return n > 1 ? 1 : 0;
        case 3: return n > 65536 ? n - 65536 : n / 2;     // short by exactly 2^16 (a count compared in 16 bits would call this complete)
        case 5: return n + 1;                              // a count larger than asked: nonsense from the driver, certainly not a complete transfer
        case 6: return (size_t)-5;                         // a negative errno squeezed through the size_t return type
        case 7: return (size_t)-EBUSY;                     // other errno values through the same convention: a device still busy with its write cycle,
        case 8: return (size_t)-EAGAIN;                    // "try again",
        case 9: return (size_t)-EINTR;                     // "interrupted" - a failed transfer is a failed transfer
        case 30: case 31: return n;                        // acknowledged in full - but the medium keeps something else (see med_write)
        default: return n > 256 ? n - 256 : n / 3;
        }
    }
    return n;
}
inline size_t med_read(void *dst, uint32_t addr, size_t n) {
    Medium &m = M();
    addr -= m.origin;
    vp::tick();
    if (!m.in_nested) m.log.push_back({false, addr, n});
    if (!m.in_nested && ((uint64_t)addr + n > MSIZE || addr < m.lo || (uint64_t)addr + n > m.hi)) { m.outside = true; if ((uint64_t)addr + n > MSIZE) return 0; }
    bool hit; size_t k = faulty(n, hit);
    memcpy(dst, m.mem + addr, k > n ? 0 : k);   // an over-long count is a failed transfer: nothing was moved
    return k;
}
inline size_t med_write(uint32_t addr, const void *src, size_t n) {
    Medium &m = M();
    addr -= m.origin;
    vp::tick();
    m.log.push_back({true, addr, n});
    if ((uint64_t)addr + n > MSIZE || addr < m.lo || (uint64_t)addr + n > m.hi) { m.outside = true; if ((uint64_t)addr + n > MSIZE) return 0; }
    bool hit; size_t k = faulty(n, hit);
    if (k > n) return k;                       // failed write reported through an over-long count: nothing written
    if (m.crash_budget >= 0 && (size_t)m.crash_budget < k) {
        memcpy(m.mem + addr, src, (size_t)m.crash_budget);   // torn write
        m.octets_written += (size_t)m.crash_budget;
        m.crash_budget = 0; m.crashed = true;
        longjmp(m.crash_jb, 1);
    }
    if (hit && m.fault_kind == 30) {
        // a worn cell: one bit of the block does not take the new value
        memcpy(m.mem + addr, src, k);
        for (size_t i = 0; i < k; i++) if (m.mem[addr + i]) { m.mem[addr + i] &= (uint8_t)(m.mem[addr + i] - 1); m.silent_applied = true; break; }
        if (!m.silent_applied && k) { m.mem[addr] |= 1; m.silent_applied = true; }
    } else if (hit && m.fault_kind == 31) {
        // a supply dip: only the first half of the block is programmed, the rest keeps what it held; the driver notices nothing
        memcpy(m.mem + addr, src, k / 2); m.silent_applied = true;
    } else
    memcpy(m.mem + addr, src, k);
    if (m.crash_budget >= 0) m.crash_budget -= (long)k;
    m.octets_written += k;
    if (k == n) m.write_boundaries.push_back(m.octets_written);
    return k;
}

// ---- checksums (all continuable)
inline uint16_t ref_trivial(const uint8_t *p, size_t n, uint16_t init) { for (size_t i = 0; i < n; i++) init = (uint16_t)(init + p[i]); return init; }
inline uint16_t sum_crc16(const unsigned char *p, size_t n, uint16_t init) { return ref::crc16_arc(init, p, n); }
inline uint32_t sum_32(const unsigned char *p, size_t n, uint32_t init) { for (size_t i = 0; i < n; i++) init = init * 0x01000193u + p[i] + 1u; return init; }

struct Config {
    size_t size; uint32_t place; int cs;        // cs 0 default (trivial 16 bit) 1 crc16 (init 0xffff) 2 sum32 (init 0x12345678)
    long aux;                                   // -1: none; otherwise the aux buffer size (0 allowed)
    int order;                                  // 0: place, then sum  1: sum, then place  2: first configured with the checksum of the other width (other algorithm, all-ones initial value), then placed, then re-configured
    int moved = 0;                              // 1: the instance is configured in one place and used from another (struct copy; the original is poisoned)
    int top = 0;                                // 1: the medium is mapped so that the instance's last octet has the address 0xffffffff (place etc. stay indices into the medium)
    size_t cssize() const { return cs == 2 ? 4 : 2; }
    uint32_t data_addr() const { return place + (uint32_t)cssize(); }
};
inline std::string ser(const Config &c) { return vp::fmt("cfg %zu %u %d %ld %d", c.size, c.place, c.cs, c.aux, c.order + 10 * c.top + 100 * c.moved); }
inline uint32_t origin_of(const Config &c) { return c.top ? (uint32_t)(0u - (c.place + (uint32_t)c.cssize() + (uint32_t)c.size)) : 0u; }
inline bool parse_cfg(const std::vector<std::string> &w, Config &c) {
    if (w.size() < 6 || w[0] != "cfg") return false;
    c.size = strtoull(w[1].c_str(), 0, 10); c.place = (uint32_t)strtoul(w[2].c_str(), 0, 10); c.cs = atoi(w[3].c_str()); c.aux = atol(w[4].c_str()); c.order = atoi(w[5].c_str()); c.moved = c.order / 100; c.top = (c.order / 10) % 10; c.order %= 10;
    return c.size >= 1 && (uint64_t)c.place + 4 + c.size <= MSIZE && c.cs >= 0 && c.cs <= 2;
}

// an instance over the global medium; the aux buffer is an exact-size heap block
struct Instance {
    PersistentStorage st;
    uint8_t *aux = nullptr;
    explicit Instance(const Config &c) {
        if (c.moved) {
            // configured elsewhere (a table entry that is later reallocated, a value returned from a set-up function): the instance is a plain
            // struct and may be copied; the place it was configured in is reused for something else
            PersistentStorage *tmp = (PersistentStorage *)malloc(sizeof(PersistentStorage));
            Config c2 = c; c2.moved = 0;
            configure(*tmp, c2);
            memcpy(&st, tmp, sizeof st);
            memset(tmp, 0xdd, sizeof *tmp);
            free(tmp);
        } else configure(st, c);
        M().lo = c.place; M().hi = c.place + (uint32_t)c.cssize() + (uint32_t)c.size;
    }
    void configure(PersistentStorage &st, const Config &c) {
        memset(&st, 0, sizeof st);
        persistent_init(&st, c.size, med_read, med_write);
        M().origin = origin_of(c);
        const uint32_t place = M().origin + c.place;
        auto sum = [&]() { if (c.cs == 1) persistent_sum16(&st, sum_crc16, 0xffff); else if (c.cs == 2) persistent_sum32(&st, sum_32, 0x12345678u); };
        if (c.order == 2 && c.cs == 1) persistent_sum32(&st, sum_32, 0xffffffffu);
        if (c.order == 2 && c.cs == 2) persistent_sum16(&st, sum_crc16, 0xffff);
        if (c.order == 0 || c.order == 2) { persistent_place(&st, place); sum(); } else { sum(); persistent_place(&st, place); }
        if (c.aux >= 0) { aux = (uint8_t *)malloc(c.aux ? (size_t)c.aux : 1); persistent_buffer(&st, aux, (size_t)c.aux); }
    }
    ~Instance() { free(aux); }
};

inline uint32_t ref_sum(const Config &c, const uint8_t *data) {
    switch (c.cs) { case 0: return ref_trivial(data, c.size, 0); case 1: return ref::crc16_arc(0xffff, data, c.size); default: return sum_32(data, c.size, 0x12345678u); }
}
inline uint32_t medium_sum(const Config &c) {
    const uint8_t *p = M().mem + c.place;
    if (c.cs == 2) { uint32_t v; memcpy(&v, p, 4); return v; }
    uint16_t v; memcpy(&v, p, 2); return v;
}
inline bool medium_consistent(const Config &c) { return ref_sum(c, M().mem + c.data_addr()) == medium_sum(c); }

} // namespace ps
