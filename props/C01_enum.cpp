// C01 — typed register set/get is lossless and constraint-enforcing.
#include "props/reg_glue.hpp"
using namespace rg;

struct Op { int kind; uint32_t h; int vtype; uint64_t raw; };   // kind 0 set 1 set_unsafe 2 get 3 sanitise (whole table)
struct Case { TableD t; std::vector<Op> ops; int pre = 0; uint32_t prek = 0; };   // pre: the boot needed two attempts (Live::init_retry)
static Case *g_cur = nullptr; static size_t g_upto = 0;
static std::string ser_case(const Case &c, size_t upto) {
    std::string s = rm::ser(c.t);
    if (c.pre) s += vp::fmt("pre %d %u\n", c.pre, c.prek);
    for (size_t i = 0; i < c.ops.size() && i < upto; i++) s += vp::fmt("op %d %u %s %llu\n", c.ops[i].kind, c.ops[i].h, rm::type_name[c.ops[i].vtype], (unsigned long long)c.ops[i].raw);
    return s;
}

// model of the table after a successful register_init
static void model_after_init(const TableD &t, rm::Space &m, uint16_t prefill = 0xbeef) {
    m.init(t);
    for (size_t i = 0; i < t.areas.size(); i++) if (!t.areas[i].membacked) for (uint32_t k = 0; k < t.areas[i].size; k++) m.mem[i][k] = (uint16_t)(prefill + k);
    m.load_defaults();
}

// runs ops [from, ..) on (live, model); returns failure key or ""; *at = failing op
static std::string step(Live &lv, rm::Space &m, const Op &op, std::string &msg) {
    const TableD &t = *lv.d;
    std::vector<std::vector<uint16_t>> before; lv.snapshot(before);
    bool bad_handle = op.h >= t.regs.size();
    if (op.kind == 3) {
        // part of the history only: whatever sanitise answers and restores (it may fail half-way on registers it cannot write) is
        // taken over into the model; the set/get contract must hold unchanged afterwards
        (void)register_sanitise(&lv.t);
        lv.snapshot(m.mem);
        return "";
    }
    if (op.kind == 2) {
        RegisterValue out; memset(&out, 0x5a, sizeof out);
        RegisterAccess a = register_get(&lv.t, op.h, &out);
        if (lv.diff(before) >= 0) { msg = "get modified storage"; return "get:storage-changed"; }
        if (bad_handle) { if (a.code != REG_ACCESS_NOENTRY) { msg = vp::fmt("get with handle %u of %zu: %s", op.h, t.regs.size(), code_name(a.code)); return "get:bad-handle-not-noentry"; } return ""; }
        const RegD &r = t.regs[op.h];
        uint64_t want = m.load(r);
        if (rm::float_ok(r.type, want)) {
            if (a.code != REG_ACCESS_SUCCESS) { msg = vp::fmt("get of a decodable register: %s", code_name(a.code)); return "get:refused"; }
            if ((int)out.type != r.type || from_value(out) != want) { msg = vp::fmt("get returned %llx, storage holds %llx", (unsigned long long)from_value(out), (unsigned long long)want); return "get:value"; }
        }
        return "";
    }
    bool checked = op.kind == 0;
    unsigned long foreign0 = foreign_entry_calls(), hook0 = mem_hook_calls();
    RegisterAccess a = checked ? register_set(&lv.t, op.h, to_value(op.vtype, op.raw)) : register_set_unsafe(&lv.t, op.h, to_value(op.vtype, op.raw));
    const char *nm = checked ? "set" : "set_unsafe";
    if (foreign_entry_calls() != foreign0) { msg = vp::fmt("%s: the validator callback was handed an entry pointer that does not lie in the table's entry array (a copy?): a validator that identifies its register by that pointer answers for the wrong one", nm); return std::string(nm) + ":validator-handed-foreign-entry"; }
    if (bad_handle) {
        if (lv.diff(before) >= 0) { msg = "set with a bad handle changed storage"; return std::string(nm) + ":bad-handle-storage-changed"; }
        if (a.code != REG_ACCESS_NOENTRY) { msg = vp::fmt("%s with handle %u of %zu: %s", nm, op.h, t.regs.size(), code_name(a.code)); return std::string(nm) + ":bad-handle-not-noentry"; }
        return "";
    }
    const RegD &r = t.regs[op.h];
    const AreaD &ar = t.areas[(size_t)m.area_of(r.addr)];
    uint64_t v = rm::canon(r.type, op.raw);
    bool refuse;
    if (checked) refuse = op.vtype != r.type || !rm::float_ok(r.type, v) || !r.satisfied(v) || !ar.has_write;
    else refuse = !rm::float_ok(r.type, v) || !ar.has_write;      // only well-typed values are generated for the unchecked variant
    if (refuse) {
        if (a.code == REG_ACCESS_SUCCESS) { msg = vp::fmt("%s of %s value %llx on %s register (constraint %s) accepted", nm, rm::type_name[op.vtype], (unsigned long long)op.raw, rm::type_name[r.type], rm::ckind_name[r.ckind]); return std::string(nm) + ":accepted-although-must-refuse"; }
        long d = lv.diff(before);
        if (d >= 0) { msg = vp::fmt("refused %s changed word %ld", nm, d); return std::string(nm) + ":refused-but-storage-changed"; }
        return "";
    }
    if (a.code != REG_ACCESS_SUCCESS) { msg = vp::fmt("%s of acceptable value %llx on %s register (constraint %s lo=%llx hi=%llx): %s", nm, (unsigned long long)v, rm::type_name[r.type], rm::ckind_name[r.ckind], (unsigned long long)r.lo, (unsigned long long)r.hi, code_name(a.code)); return std::string(nm) + ":refused-although-acceptable"; }
    if (write_hooked(ar) && mem_hook_calls() == hook0) { msg = vp::fmt("%s into an area whose write accessor is the application's own (in front of a memory mirror read by reg_mem_read) succeeded without calling that accessor", nm); return std::string(nm) + ":write-accessor-bypassed"; }
    m.store(r, v);
    long d = lv.diff(m);
    if (d >= 0) { msg = vp::fmt("after %s of %llx word %ld differs from the reference serialisation (%s-endian table)", nm, (unsigned long long)v, d, t.big ? "big" : "little"); return std::string(nm) + ":storage"; }
    RegisterValue out; memset(&out, 0, sizeof out);
    RegisterAccess g = register_get(&lv.t, op.h, &out);
    if (g.code != REG_ACCESS_SUCCESS || from_value(out) != v || (int)out.type != r.type) { msg = vp::fmt("get after set(%llx) returns %llx (%s)", (unsigned long long)v, (unsigned long long)from_value(out), code_name(g.code)); return std::string(nm) + ":roundtrip"; }
    return "";
}

static std::string run_case(Case &c, std::string &msg, bool classify) {
    g_cur = &c; g_upto = 0;
    Live lv(c.t);
    RegisterInit first; memset(&first, 0, sizeof first);
    RegisterInit in = c.pre ? lv.init_retry(c.pre, c.prek, &first) : lv.init();
    if (classify && c.pre && first.code != REG_INIT_SUCCESS) vp::cls(first.code == REG_INIT_ENTRY_IN_MEMORY_HOLE ? "init-retried-after-entry-in-hole" : first.code == REG_INIT_ENTRY_INVALID_DEFAULT ? "init-retried-after-refused-default" : "init-retried-after-other-failure");
    if (in.code != REG_INIT_SUCCESS) { msg = vp::fmt("valid table refused: code %d at %u", (int)in.code, in.pos.entry); return "init:refused"; }
    rm::Space m; model_after_init(c.t, m);
    if (lv.diff(m) >= 0) { msg = vp::fmt("storage after init differs from the model at %ld", lv.diff(m)); return "init:storage"; }
    for (size_t i = 0; i < c.ops.size(); i++) {
        g_upto = i + 1;
        const Op &op = c.ops[i];
        if (classify) {
            bool nt = false;
            if (op.kind == 3) { vp::cls("sanitise-in-history"); }
            else if (op.h == c.t.regs.size()) { vp::cls("handle-one-past-end"); nt = true; }
            else if (op.h < c.t.regs.size() && op.kind != 2) {
                const RegD &r = c.t.regs[op.h];
                uint64_t v = rm::canon(r.type, op.raw);
                if (op.vtype != r.type) { vp::cls("set-mistyped"); nt = true; }
                else if (!rm::float_ok(r.type, v)) { vp::cls("set-nonfinite-float"); nt = true; }
                else if (!r.satisfied(v)) { vp::cls("set-violates-constraint"); nt = true; }
                else if (r.ckind >= rm::C_MIN && r.ckind <= rm::C_RANGE && (v == r.lo || v == r.hi)) { vp::cls("set-at-constraint-bound"); nt = true; }
                if (c.t.big) { nt = true; }
                if (!c.t.areas[0].membacked) nt = true;
            }
            if (nt) vp::nontrivial(vp::mix(vp::mix(vp::fnv(rm::ser(c.t)), op.raw), op.h * 8 + op.kind * 3 + op.vtype * 64));
            vp::count();
        }
        std::string k = step(lv, m, op, msg);
        if (!k.empty()) return k;
    }
    return "";
}

// keep only as many trailing ops as are needed to reproduce the same failure key
static void report(Case &c, const std::string &key, const std::string &msg) {
    size_t fail_at = g_upto;
    for (size_t keep : {(size_t)1, (size_t)2, (size_t)4, (size_t)16}) {
        if (keep >= fail_at) break;
        Case s; s.t = c.t; s.pre = c.pre; s.prek = c.prek; s.ops.assign(c.ops.begin() + (long)(fail_at - keep), c.ops.begin() + (long)fail_at);
        std::string m2, k2 = run_case(s, m2, false);
        if (k2 == key) { vp::fail(key, m2, ser_case(s, s.ops.size())); return; }
    }
    vp::fail(key, msg, ser_case(c, fail_at));
}

static void run() {
    auto &a = vp::args();
    vp::CaseScope scope([] { return g_cur ? ser_case(*g_cur, g_upto) : std::string(); });
    size_t ntables = (a.thorough() ? 20000 : 1500) / a.nshards, exhaustive16 = a.thorough() ? 200 : 6;
    vp::stats().rule = vp::fmt("enum/random: %zu generated valid tables per shard (1-3 areas, memory- and callback-backed, RW/RO/WO/no-write-callback/skip-defaults, 0-5 registers of all 8 types at every "
                               "alignment, constraints none/fail/min/max/range/callback, both byte orders); per register a stream of set/set_unsafe/get with values at type and constraint "
                               "boundaries +-1, every float class incl. signalling NaNs, mistyped values, handles incl. one-past-the-end and UINT32_MAX; the same sets again after register_sanitise ran in the middle of the history; every fifth table boots in two attempts (register_init fails late on a wrong definition, the definition is corrected, register_init again on the same object); all 2^16 values for 16-bit registers on %zu tables", ntables, exhaustive16);
    vp::Rng rng(a.seed * 7001 + a.shard);
    for (size_t ti = 0; ti < ntables && !vp::too_many_failures(); ti++) {
        FamilyOpts big; big.max_areas = 6; big.max_size = 20; big.max_regs = 12;
        FamilyOpts wide; wide.huge = 2; wide.many = 2;   // every 40th table: an area beyond 2^16 words with registers behind offset 0x10000, or 32..70 registers
        Case c; c.t = (ti % 40 == 39) ? gen_table(rng, wide) : (ti % 8 == 7) ? gen_table(rng, big) : gen_table(rng);
        size_t nr = c.t.regs.size();
        if (ti % 5 == 3) { c.pre = 1 + (int)rng.below(2); c.prek = (uint32_t)rng.below(64); }   // a boot that needed two attempts
        // per register: boundary values and random ones through both variants
        for (size_t h = 0; h < nr; h++) {
            const RegD &r = c.t.regs[h];
            std::vector<uint64_t> vals = {0, 1, (uint64_t)-1, type_min(r.type), type_max(r.type)};
            if (r.ckind >= rm::C_MIN && r.ckind <= rm::C_RANGE) for (int d = -1; d <= 1; d++) { vals.push_back(step(r.type, r.lo, d)); vals.push_back(step(r.type, r.hi, d)); }
            if (rm::is_float(r.type)) for (uint64_t s : special_floats(r.type)) vals.push_back(s);
            for (unsigned b = 0; b < rm::bits(r.type); b += (a.thorough() ? 1 : 5)) vals.push_back(1ull << b);
            for (int k = 0; k < 6; k++) vals.push_back(gen_for(rng, r));
            for (uint64_t v : vals) {
                c.ops.push_back({0, (uint32_t)h, r.type, rm::canon(r.type, v)});
                if (rng.chance(1, 3)) c.ops.push_back({2, (uint32_t)h, 0, 0});
                if (rng.chance(1, 2)) c.ops.push_back({1, (uint32_t)h, r.type, rm::canon(r.type, gen_for(rng, r))});
                if (rng.chance(1, 8)) { int wt = (int)rng.below(rm::NTYPES); c.ops.push_back({0, (uint32_t)h, wt, rm::canon(wt, v)}); }
            }
        }
        // bad handles
        for (uint32_t h : {(uint32_t)nr, (uint32_t)nr + 1, (uint32_t)nr + 7, UINT32_MAX, UINT32_MAX - 1})
            for (int kind = 0; kind < 3; kind++) c.ops.push_back({kind, h, (int)rng.below(rm::NTYPES), rng.next() & 0xffff});
        // the same contract after a sanitise run in the middle of the history (it fails on tables with registers it cannot restore)
        c.ops.push_back({3, 0, 0, 0});
        for (size_t h = 0; h < nr; h++) {
            const RegD &r = c.t.regs[h];
            std::vector<uint64_t> vals = {0, type_max(r.type), gen_for(rng, r), r.def};
            if (r.ckind >= rm::C_MIN && r.ckind <= rm::C_RANGE) { vals.push_back(step(r.type, r.lo, -1)); vals.push_back(step(r.type, r.hi, 1)); vals.push_back(r.lo); }
            for (uint64_t v : vals) { c.ops.push_back({0, (uint32_t)h, r.type, rm::canon(r.type, v)}); if (rng.chance(1, 4)) c.ops.push_back({2, (uint32_t)h, 0, 0}); }
            if (rng.chance(1, 6)) c.ops.push_back({3, 0, 0, 0});
        }
        std::string msg, key = run_case(c, msg, true);
        if (!key.empty()) report(c, key, msg);
        if (vp::want_sample()) vp::sample(ser_case(c, 6) + vp::fmt("... (%zu ops)", c.ops.size()));
        vp::cls(c.t.big ? "table-big-endian" : "table-little-endian");
        // 16-bit exhaustive
        if (ti < exhaustive16)
            for (size_t h = 0; h < nr; h++) if (rm::words(c.t.regs[h].type) == 1) {
                Case e; e.t = c.t; e.pre = c.pre; e.prek = c.prek;
                for (uint32_t v = 0; v < 65536; v++) e.ops.push_back({(int)(v & 1 ? 0 : (v % 6 == 0)), (uint32_t)h, c.t.regs[h].type, rm::canon(c.t.regs[h].type, v)});
                std::string m2, k2 = run_case(e, m2, true);
                if (!k2.empty()) report(e, k2, m2);
                vp::cls("16-bit-register-all-values");
            }
    }
}
static bool replay(const std::string &text) {
    Case c; std::vector<std::string> rest;
    if (!rm::parse(text, c.t, rest)) return false;
    for (auto &l : rest) { auto w = vp::split(l); if (w.size() == 3 && w[0] == "pre") { c.pre = atoi(w[1].c_str()); c.prek = (uint32_t)strtoul(w[2].c_str(), 0, 10); } if (w.size() == 5 && w[0] == "op") { int vt = 0; for (int i = 0; i < rm::NTYPES; i++) if (w[3] == rm::type_name[i]) vt = i; c.ops.push_back({atoi(w[1].c_str()), (uint32_t)strtoul(w[2].c_str(), 0, 10), vt, strtoull(w[4].c_str(), 0, 10)}); } }
    vp::CaseScope scope([] { return g_cur ? ser_case(*g_cur, g_upto) : std::string(); });
    std::string msg, key = run_case(c, msg, false);
    if (!key.empty()) printf("[replay] key=%s %s\n", key.c_str(), msg.c_str());
    return key.empty();
}
VP_MAIN(run, replay)
