// C20 — libFuzzer target: arbitrary octet strings through the reference reader oracle.
#include "support/fuzz.hpp"
#include "props/C20.hpp"
using namespace c20;

extern "C" int LLVMFuzzerInitialize(int *argc, char ***argv) { return vpfuzz::initialize(argc, argv); }

extern "C" int LLVMFuzzerTestOneInput(const uint8_t *data, size_t size) {
    if (size > 512) return 0;
    std::string in((const char *)data, size);
    Outcome o = check_input(in);
    vp::count();
    vp::cls(o.ref == ACCEPT ? "accepted" : o.ref == REJECT ? "rejected" : "dont-care");
    if (o.nontrivial) vp::nontrivial(vp::fnv(in));
    VP_SAMPLE(vp::json_escape(in.substr(0, 80)));
    if (!o.key.empty()) vpfuzz::oracle_failure(o.key, o.msg + " input=\"" + vp::json_escape(in) + "\"");
    return 0;
}
