// C08 — every emitted frame is spec-conformant and round-trips through the library's own receiver.
#include "shims/pp_probes.h"
#include "props/regp.hpp"
using namespace rx;

// entry: 0 req_read8 1 req_read16 2 req_write8 3 req_write16 4 ack 5..15 error response with code entry-4 (1..11) 16 meta(1) 17 meta(2)
struct Case { int entry; bool serial, mem16, req_write, req_w16; uint16_t seq; uint32_t addr, n, value; Bytes payload; bool chunk; int snkmode = 0; };   // snkmode: how the sink takes the emitted octets: 0 whole calls, 1 one octet per call, 2 short writes mixed with EINTR
static Case g_cur;
static std::string ser_case(const Case &c) {
    return vp::fmt("emit %d %d %d %d %d %u %u %u %u %d %s %d\n", c.entry, (int)c.serial, (int)c.mem16, (int)c.req_write, (int)c.req_w16, c.seq, c.addr, c.n, c.value, (int)c.chunk, c.payload.empty() ? "-" : vp::hex(c.payload).c_str(), c.snkmode);
}
static const char *entry_name(int e) {
    static const char *n[] = {"req_read8", "req_read16", "req_write8", "req_write16", "resp_ack", "resp_ewordsize", "resp_epayloadcrc", "resp_epayloadsize", "resp_erxoverflow", "resp_etxoverflow",
                              "resp_ebusy", "resp_eunmapped", "resp_eaccess", "resp_erange", "resp_einvalid", "resp_eio", "meta_eheaderenc", "meta_eheadercrc"};
    return n[e];
}
static void F(const Case &c, const std::string &key, const std::string &msg) { vp::fail(std::string(entry_name(c.entry)) + ":" + key, msg + (c.serial ? " [serial" : " [tcp") + (c.mem16 ? ",mem16]" : ",mem8]"), ser_case(c)); }

static void run_case(const Case &c) {
    g_cur = c;
    vp::count();
    size_t block = frame_struct_size() + 64 + c.payload.size() + (size_t)c.n * 2 + 8;
    Session A(c.serial, c.mem16, block, c.chunk, c.chunk);
    rp::Frame expected;
    int rc = 0;
    auto arm_sink = [&]() {
        if (c.snkmode == 1) A.snk.script.steps.assign(40 + c.payload.size(), 1);
        else if (c.snkmode == 2) { static const int pat[] = {-EINTR, 2, 1, -EINTR, -EINTR, 3, 1, 5, -EINTR, 2}; for (size_t i = 0; i < 30 + c.payload.size() / 2; i++) { int st = pat[i % 10]; if (st < 0 && c.serial) st = 1; A.snk.script.steps.push_back(st); } }   // the SLIP encoder returns sink errors unchanged (C12), EINTR included: interruptions only on tcp
    };
    if (c.entry <= 3 || c.entry >= 16) arm_sink();
    if (c.entry <= 3) {
        A.p.session.sequence = c.seq;
        bool write = c.entry >= 2, w16 = c.entry & 1;
        expected = rp::make_request(c.serial, write, w16, c.seq, c.addr, c.n, c.payload);
        // octet payloads may sit at any address: odd sequence numbers put them one octet into an exact-size block
        size_t shift = (c.entry == 2 && (c.seq & 1)) ? 1 : 0;
        vp::Block plb((c.payload.size() ? c.payload.size() : 2) + shift);
        struct { uint8_t *p; } pl = {plb.p + shift};
        if (!c.payload.empty()) memcpy(pl.p, c.payload.data(), c.payload.size());
        switch (c.entry) {
        case 0: rc = regp_req_read8(&A.p, c.addr, c.n); break;
        case 1: rc = regp_req_read16(&A.p, c.addr, c.n); break;
        case 2: rc = regp_req_write8(&A.p, c.addr, c.n, pl.p); break;
        default: rc = regp_req_write16(&A.p, c.addr, c.n, (const uint16_t *)pl.p); break;
        }
        if (A.p.session.sequence != (uint16_t)(c.seq + 1)) { F(c, "sequence-not-incremented", vp::fmt("sequence %u after a request sent with %u", A.p.session.sequence, c.seq)); return; }
    } else if (c.entry >= 16) {
        expected = rp::make_meta(c.serial, c.entry - 15);
        rc = regp_resp_meta(&A.p, (uint_least8_t)(c.entry - 15));
    } else {
        // obtain the request frame through the real receive path
        Bytes reqpl; if (c.req_write) reqpl.assign((size_t)c.n * (c.req_w16 ? 2 : 1), 0x5a);
        rp::Frame req = rp::make_request(c.serial, c.req_write, c.req_w16, c.seq, c.addr, c.n, reqpl);
        A.feed(rp::on_wire(c.serial, rp::encode(req)));
        RPMaybeFrame mf; memset(&mf, 0, sizeof mf);
        int rr = regp_recv(&A.p, &mf);
        if (rr != 0 || mf.error.id != 0 || !mf.frame) { F(c, "harness:request-not-received", vp::fmt("reference-encoded request not accepted: rc=%d error=%d", rr, mf.error.id)); if (mf.frame) regp_free(&A.p, mf.frame); return; }
        A.take_output();
        arm_sink();
        int code = c.entry - 4;
        size_t shift = (!c.mem16 && (c.seq & 1)) ? 1 : 0;
        vp::Block plb((c.payload.size() ? c.payload.size() : 2) + shift);
        struct { uint8_t *p; } pl = {plb.p + shift};
        if (!c.payload.empty()) memcpy(pl.p, c.payload.data(), c.payload.size());
        size_t words = c.mem16 ? c.payload.size() / 2 : c.payload.size();
        switch (code) {
        case rp::C_ACK: rc = c.payload.empty() ? regp_resp_ack(&A.p, mf.frame, nullptr, 0) : regp_resp_ack(&A.p, mf.frame, pl.p, words); break;
        case rp::C_EWORDSIZE: rc = regp_resp_ewordsize(&A.p, mf.frame); break;
        case rp::C_EPAYLOADCRC: rc = regp_resp_epayloadcrc(&A.p, mf.frame); break;
        case rp::C_EPAYLOADSIZE: rc = regp_resp_epayloadsize(&A.p, mf.frame); break;
        case rp::C_ERXOVERFLOW: rc = regp_resp_erxoverflow(&A.p, mf.frame, c.value); break;
        case rp::C_ETXOVERFLOW: rc = regp_resp_etxoverflow(&A.p, mf.frame, c.value); break;
        case rp::C_EBUSY: rc = regp_resp_ebusy(&A.p, mf.frame); break;
        case rp::C_EUNMAPPED: rc = regp_resp_eunmapped(&A.p, mf.frame, c.value); break;
        case rp::C_EACCESS: rc = regp_resp_eaccess(&A.p, mf.frame, c.value); break;
        case rp::C_ERANGE: rc = regp_resp_erange(&A.p, mf.frame, c.value); break;
        case rp::C_EINVALID: rc = regp_resp_einvalid(&A.p, mf.frame, c.value); break;
        default: rc = regp_resp_eio(&A.p, mf.frame); break;
        }
        expected = rp::make_response(c.serial, req, code, c.mem16, code == rp::C_ACK ? c.payload : Bytes(), c.value);
        regp_free(&A.p, mf.frame);
        if (A.led.outstanding() || A.led.double_free) { F(c, "ledger", "allocation ledger unbalanced after regp_free"); return; }
    }
    if (rc < 0) { F(c, "emit-failed", vp::fmt("emitter returned %d", rc)); return; }
    Bytes wire = A.take_output();
    Bytes want = rp::on_wire(c.serial, rp::encode(expected));
    if (wire != want) {
        size_t d = 0; while (d < wire.size() && d < want.size() && wire[d] == want[d]) d++;
        F(c, "wire-octets", vp::fmt("emitted %zu octets, document prescribes %zu; first difference at %zu: %s vs %s", wire.size(), want.size(), d, vp::hex(wire.data() + d, std::min<size_t>(8, wire.size() - d)).c_str(),
                            vp::hex(want.data() + d, std::min<size_t>(8, want.size() - d)).c_str()));
        return;
    }
    // the library's own receiver
    Session B(c.serial, c.mem16, block + 32, c.chunk, c.chunk, wire);
    RPMaybeFrame mf; memset(&mf, 0, sizeof mf);
    int rr = regp_recv(&B.p, &mf);
    if (rr != 0 || mf.error.id != 0 || !mf.frame) { F(c, "not-accepted-by-own-receiver", vp::fmt("regp_recv rc=%d error.id=%d on a frame the library emitted (%s)", rr, mf.error.id, rp::show(expected).c_str())); if (mf.frame) regp_free(&B.p, mf.frame); return; }
    std::string diff = same_fields(from_lib(mf.frame), expected);
    if (!diff.empty()) F(c, "roundtrip-" + diff, "receiver reports a different " + diff + ": " + rp::show(from_lib(mf.frame)) + " vs " + rp::show(expected));
    if (!B.snk.got.empty()) F(c, "receiver-replied", "receiving a valid frame produced output");
    regp_free(&B.p, mf.frame);
    if (B.led.outstanding() || B.led.double_free) F(c, "ledger", "allocation ledger unbalanced after regp_free");
}

static Bytes gen_payload(vp::Rng &r, size_t n) {
    static const uint8_t SPECIAL[] = {0xc0, 0xdb, 0xdc, 0xdd, 0x00, 0xff};
    Bytes p(n);
    for (auto &b : p) b = r.chance(1, 2) ? SPECIAL[r.below(6)] : r.byte();
    return p;
}

static void run() {
    auto &a = vp::args();
    if (a.shard == 0) vp::pp_phase(vp_pp_regp, "regp");
    vp::CaseScope scope([] { return ser_case(g_cur); });
    vp::stats().rule = "enum/random: all 18 emit entry points (4 requests, ACK with/without payload, 11 error responses, 2 meta) x {serial, tcp} x {8, 16}-bit memory x request kinds, with addresses and "
                       "sequence numbers at the edges, payloads rich in SLIP control octets (octet payloads at even and odd addresses), sinks that take whole calls / one octet per call / short writes mixed with EINTR, sequence numbers searched so that the header checksum is 0x0000/0xffff/SLIP control octets, a SLIP control octet behind every run length 0..300 of ordinary payload octets, total lengths across the varint boundaries 127/128 and 16383/16384 and payloads across 2^16 and 2^17 octets; oracle = reference encoder octets + "
                       "the library's own receiver reports the same fields; request sequence numbers increase by one modulo 2^16 (session of 70000 requests)";
    vp::stats().exhaustive = false;
    vp::Rng rng(a.seed * 15013 + a.shard);
    std::vector<uint32_t> addrs = {0, 1, 0xffffffffu, 0x80000000u, 0x00c0dbdcu, 0xdbc0ddc0u, 0x12345678u};
    std::vector<uint16_t> seqs = {0, 1, 0xffff, 0xfffe, 0xc0db, 0xdcdd, 0x8000};
    uint64_t idx = 0;
    // exhaustive over (entry x transport x width x request kind) with boundary parameters
    for (int entry = 0; entry < 18; entry++) for (int serial = 0; serial < 2; serial++) for (int mem16 = 0; mem16 < 2; mem16++) for (int rw = 0; rw < 2; rw++) for (int rw16 = 0; rw16 < 2; rw16++)
        for (size_t ai = 0; ai < addrs.size(); ai++) {
            if (idx++ % a.nshards != a.shard) continue;
            Case c{entry, (bool)serial, (bool)mem16, (bool)rw, (bool)rw16, seqs[(ai + (size_t)entry) % seqs.size()], addrs[ai], 0, 0, {}, (bool)(ai & 1)};
            c.value = (uint32_t)rng.pick(std::vector<uint64_t>{0, 0xc0c0c0c0u, 0xffffffffu, 0xdbdcddc0u, 0x100, rng.next() & 0xffffffffu});
            c.n = (uint32_t)rng.pick(std::vector<uint64_t>{0, 1, 2, 3, 7, 31});
            if (entry == 2 || entry == 3) c.payload = gen_payload(rng, (size_t)c.n * (entry == 3 ? 2 : 1));
            if (entry == 4) { if (rw) c.payload.clear(); else c.payload = gen_payload(rng, (size_t)c.n * (mem16 ? 2 : 1)); }   // ACK of a read carries the block, of a write nothing
            c.snkmode = (int)((idx / 7) % 3);
            run_case(c);
            if (c.snkmode) vp::cls("sink-with-short-writes");
            bool nt = !c.payload.empty() || (entry >= 5 && entry <= 15);
            if (nt) { vp::nontrivial(vp::fnv(ser_case(c))); vp::cls(entry >= 5 && entry <= 15 ? "error-response" : "payload-with-slip-control-octets"); } else vp::cls("plain");
            if (vp::want_sample()) vp::sample(ser_case(c));
            if (vp::too_many_failures()) return;
        }
    // lengths across varint boundaries (total frame length 127/128, 16383/16384; serial and tcp)
    // ... and across 2^16 / 2^17 octets of payload (a length kept in 16 bits shows here)
    for (int serial = 0; serial < 2; serial++) for (size_t total : {126u, 127u, 128u, 129u, 16382u, 16383u, 16384u, 16385u, 65534u + 16u, 65535u + 16u, 65536u + 16u, 65537u + 16u, 65538u + 16u, 131072u + 16u, 131074u + 16u}) for (int entry : {2, 3, 4}) {
        if (idx++ % a.nshards != a.shard) continue;
        size_t hdr = 12 + (serial ? 4 : 0);
        size_t pl = total - hdr; if ((entry == 3) && (pl & 1)) pl--;
        bool mem16 = entry == 4 && (pl % 2 == 0) && rng.chance(1, 2);
        Case c{entry, (bool)serial, mem16, false, mem16, (uint16_t)rng.next(), (uint32_t)rng.next(), (uint32_t)(entry == 3 || (entry == 4 && mem16) ? pl / 2 : pl), 0, gen_payload(rng, pl), true};
        run_case(c);
        vp::nontrivial(vp::fnv(ser_case(c))); vp::cls("length-across-varint-boundary");
    }
    // frames whose header checksum comes out as 0x0000 / 0xffff / 0xc0c0 / 0xdbdb: the sequence number is searched with the reference encoder
    // (one in 65536 headers has each value; an emitter that looks at the checksum *value* to decide anything shows here)
    for (int entry : {0, 1, 2, 3}) for (uint32_t n : {0u, 1u, 4u}) for (int want : {0x0000, 0xffff, 0xc0c0, 0xdbdb, 0x00c0, 0xdb00}) {
        if (idx++ % a.nshards != a.shard) continue;
        bool write = entry >= 2, w16 = entry & 1;
        Bytes pl = write ? gen_payload(rng, (size_t)n * (w16 ? 2 : 1)) : Bytes();
        for (uint32_t sq = 0; sq < 65536; sq++) {
            rp::Frame f = rp::make_request(true, write, w16, (uint16_t)sq, 0x1000 + n, n, pl);
            Bytes e = rp::encode(f);
            if (((e[12] << 8) | e[13]) != want) continue;
            Case c{entry, true, (bool)w16, false, false, (uint16_t)sq, 0x1000 + n, n, 0, pl, (bool)(n & 1)};
            run_case(c);
            vp::nontrivial(vp::fnv(ser_case(c))); vp::cls("header-checksum-with-a-searched-value");
            break;
        }
    }
    // a SLIP control octet behind a run of k ordinary payload octets, every k up to 300 (header octets precede the run on the wire)
    for (size_t k = 0; k <= 300; k++) for (uint8_t ctl : {(uint8_t)0xc0, (uint8_t)0xdb}) {
        if (idx++ % a.nshards != a.shard) continue;
        Bytes pl(k); for (size_t i = 0; i < k; i++) pl[i] = (uint8_t)('a' + i % 25);
        pl.push_back(ctl);
        bool even = pl.size() % 2 == 0;
        int entry = (k % 3 == 0) ? 4 : (even && k % 3 == 1) ? 3 : 2;
        bool mem16 = entry == 4 && even && (k & 4);
        Case c{entry, true, mem16, false, mem16, (uint16_t)(0x0101 + k), 0x01010101u, (uint32_t)(entry == 3 || (entry == 4 && mem16) ? pl.size() / 2 : pl.size()), 0, pl, (bool)(k & 1)};
        c.snkmode = (int)(k % 3);
        run_case(c);
        vp::nontrivial(vp::fnv(ser_case(c))); vp::cls("control-octet-behind-run-of-k-ordinary-octets");
    }
    // random
    size_t nrand = (a.thorough() ? 400000 : 30000) / a.nshards;
    for (size_t i = 0; i < nrand && !vp::too_many_failures(); i++) {
        Case c{(int)rng.below(18), rng.chance(1, 2), rng.chance(1, 2), rng.chance(1, 2), rng.chance(1, 2), rng.chance(1, 4) ? rng.pick(seqs) : (uint16_t)rng.next(),
               rng.chance(1, 4) ? rng.pick(addrs) : (uint32_t)rng.next(), (uint32_t)rng.below(rng.chance(1, 10) ? 200 : 12), (uint32_t)rng.next(), {}, rng.chance(1, 2)};
        if (c.entry == 2 || c.entry == 3) c.payload = gen_payload(rng, (size_t)c.n * (c.entry == 3 ? 2 : 1));
        if (c.entry == 4 && !c.req_write) c.payload = gen_payload(rng, (size_t)c.n * (c.mem16 ? 2 : 1));
        c.snkmode = (int)rng.below(3);
        run_case(c);
        bool nt = !c.payload.empty() || (c.entry >= 5 && c.entry <= 15);
        if (nt) vp::nontrivial(vp::fnv(ser_case(c)));
        vp::cls("random");
    }
    // a long session: the sequence number wraps
    if (a.shard == 0) {
        Session S(false, true, 256);
        S.p.session.sequence = 0xfff0;
        uint16_t expect = 0xfff0;
        for (unsigned i = 0; i < 70000; i++) {
            int k = (int)(i % 4); uint16_t w[1] = {0x1234}; uint8_t o[1] = {0x42};
            int rc = k == 0 ? regp_req_read8(&S.p, i, 1) : k == 1 ? regp_req_read16(&S.p, i, 1) : k == 2 ? regp_req_write8(&S.p, i, 1, o) : regp_req_write16(&S.p, i, 1, w);
            Bytes wire = S.take_output();
            std::vector<Bytes> fr; rp::Frame f;
            if (rc < 0 || !rp::split_wire(false, wire, fr) || fr.size() != 1 || rp::decode(fr[0], f) != rp::V_OK || f.seq != expect) {
                Case c{k, false, true, false, false, expect, i, 1, 0, {}, true};
                F(c, "session-sequence", vp::fmt("request %u of a session carries sequence %u, expected %u", i, f.seq, expect)); break;
            }
            expect++; vp::count();
        }
        vp::cls("session-of-70000-requests");
    }
}
static bool replay(const std::string &text) {
    if (text.rfind("pp ", 0) == 0) { vp::pp_phase(vp_pp_regp, "regp"); return vp::stats().failures.empty(); }
    auto w = vp::split(vp::lines(text).at(0));
    if (w.size() < 12 || w[0] != "emit") return false;
    Case c{atoi(w[1].c_str()), (bool)atoi(w[2].c_str()), (bool)atoi(w[3].c_str()), (bool)atoi(w[4].c_str()), (bool)atoi(w[5].c_str()), (uint16_t)strtoul(w[6].c_str(), 0, 10), (uint32_t)strtoul(w[7].c_str(), 0, 10),
           (uint32_t)strtoul(w[8].c_str(), 0, 10), (uint32_t)strtoul(w[9].c_str(), 0, 10), w[11] == "-" ? Bytes() : vp::unhex(w[11]), (bool)atoi(w[10].c_str()), w.size() >= 13 ? atoi(w[12].c_str()) : 0};
    vp::CaseScope scope([] { return ser_case(g_cur); });
    run_case(c);
    return vp::stats().failures.empty();
}
VP_MAIN(run, replay)
