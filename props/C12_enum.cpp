// C12 — SLIP (RFC 1055) framing: transparency, bounds, resynchronisation, error propagation.
#include "shims/pp_probes.h"
#include "support/endpoints.hpp"
#include <ufw/rfc1055.h>

static const uint8_t END = 0xc0, ESC = 0xdb, ESC_END = 0xdc, ESC_ESC = 0xdd;
typedef std::vector<uint8_t> Bytes;

struct Case { char role; bool sof; int kinds; Bytes s; int variant; };   // role: p(ayload) r(aw) g(arbage) e(rror injection)
static std::string ser(const Case &c) { return vp::fmt("slip %c %d %d %d %s\n", c.role, (int)c.sof, c.kinds, c.variant, c.s.empty() ? "-" : vp::hex(c.s).c_str()); }
static Case g_cur;

static void ctx_init(RFC1055Context &ctx, bool sof) { rfc1055_context_init(&ctx, sof ? RFC1055_WITH_SOF : RFC1055_DEFAULT); }

static void F(const Case &c, const std::string &key, const std::string &msg) {
    vp::fail(std::string(1, c.role) + (c.sof ? ":sof:" : ":classic:") + key, msg, ser(c));
}

// reference encoding (only used to build decoder inputs; the encoder itself is judged structurally and by round trip)
static Bytes ref_encode(const Bytes &p, bool sof) {
    Bytes o;
    if (sof) o.push_back(END);
    for (uint8_t b : p) { if (b == END) { o.push_back(ESC); o.push_back(ESC_END); } else if (b == ESC) { o.push_back(ESC); o.push_back(ESC_ESC); } else o.push_back(b); }
    o.push_back(END);
    return o;
}

static bool lib_encode(const Case &c, const Bytes &p, Bytes &out, int &rc) {
    ep::ScriptSource src(c.kinds & 1, p);
    ep::ScriptSink snk(c.kinds & 2);
    if (c.kinds & 4) { static const int pat[5] = {1, 1, 2, 1, 3}; for (size_t i = 0; i < 2 * p.size() + 6; i++) snk.script.steps.push_back(pat[i % 5]); }   // a sink that accepts fewer octets than offered (short writes are not errors)
    RFC1055Context ctx; ctx_init(ctx, c.sof);
    rc = rfc1055_encode(&ctx, &src.src, &snk.snk);
    out = snk.got;
    return rc >= 0;
}

// one device object behind both endpoints (a UART handle that serves the receive and the transmit side): source and sink carry the same driver cookie
struct Duplex {
    Bytes in, out; size_t pos = 0; Source src; Sink snk;
    explicit Duplex(Bytes i, bool chunk) : in(std::move(i)) {
        if (chunk) { chunk_source_init(&src, &Duplex::rd, this); chunk_sink_init(&snk, &Duplex::wr, this); }
        else { octet_source_init(&src, &Duplex::rd1, this); octet_sink_init(&snk, &Duplex::wr1, this); }
    }
    static ssize_t rd(void *d, void *o, size_t n) { Duplex *x = (Duplex *)d; if (x->pos >= x->in.size()) return -ENODATA; size_t k = std::min(n, x->in.size() - x->pos); memcpy(o, x->in.data() + x->pos, k); x->pos += k; return (ssize_t)k; }
    static ssize_t wr(void *d, const void *i, size_t n) { Duplex *x = (Duplex *)d; x->out.insert(x->out.end(), (const uint8_t *)i, (const uint8_t *)i + n); return (ssize_t)n; }
    static int rd1(void *d, void *o) { return (int)rd(d, o, 1); }
    static int wr1(void *d, unsigned char c) { return (int)wr(d, &c, 1); }
};
// ---- (a) payload round trip, structure, bound
static void role_payload(const Case &c, std::vector<Bytes> &recent) {
    const Bytes &p = c.s;
    Bytes enc; int rc;
    if (!lib_encode(c, p, enc, rc)) { F(c, "encode-failed", vp::fmt("rfc1055_encode returned %d", rc)); return; }
    size_t bound = 2 * p.size() + (c.sof ? 2 : 1);
    if (enc.size() > bound) F(c, "encode-bound", vp::fmt("encoding has %zu octets, bound %zu", enc.size(), bound));
    if (enc.empty() || enc.back() != END) { F(c, "encode-no-delimiter", "encoding does not end with END"); return; }
    if (c.sof && (enc.size() < 2 || enc[0] != END)) { F(c, "encode-no-sof", "start-of-frame octet missing"); return; }
    for (size_t i = c.sof ? 1 : 0; i + 1 < enc.size(); i++) {
        if (enc[i] == END) { F(c, "encode-stray-delimiter", "END inside the frame body"); return; }
        if (enc[i] == ESC) { if (i + 2 >= enc.size() + 0 || (enc[i + 1] != ESC_END && enc[i + 1] != ESC_ESC)) { F(c, "encode-bad-escape", "ESC not followed by ESC_END/ESC_ESC"); return; } i++; }
    }
    // decode the library's own encoding
    {
        ep::ScriptSource src(c.kinds & 1, enc); ep::ScriptSink snk(c.kinds & 2);
        RFC1055Context ctx; ctx_init(ctx, c.sof);
        int d = rfc1055_decode(&ctx, &src.src, &snk.snk);
        if (d != 1) F(c, "roundtrip-return", vp::fmt("decode of the encoding returned %d, not end-of-frame", d));
        else if (snk.got != p) F(c, "roundtrip-payload", "decoded " + vp::hex(snk.got) + " from " + vp::hex(enc));
        else if (src.pos != enc.size()) F(c, "roundtrip-consumed", "decoder did not consume exactly the frame");
    }
    // the same through one device object that is source and sink at once
    {
        Duplex de(p, c.kinds & 1); RFC1055Context ctx; ctx_init(ctx, c.sof);
        int er = rfc1055_encode(&ctx, &de.src, &de.snk);
        if (er < 0 || de.out != enc) { F(c, "duplex-device:encode", vp::fmt("source and sink share one driver object: encode returned %d and produced %s", er, vp::hex(de.out).c_str())); return; }
        Duplex dd(enc, c.kinds & 1); RFC1055Context dctx; ctx_init(dctx, c.sof);
        int dr = rfc1055_decode(&dctx, &dd.src, &dd.snk);
        if (dr != 1 || dd.out != p) { F(c, "duplex-device:decode", vp::fmt("source and sink share one driver object: decode returned %d with payload %s", dr, vp::hex(dd.out).c_str())); return; }
    }
    // concatenation with the previous payloads
    // companions derived from p itself, so that the case is self-contained
    recent.clear();
    recent.push_back(p);
    recent.push_back(Bytes(p.rbegin(), p.rend()));
    { Bytes r = p; if (!r.empty()) std::rotate(r.begin(), r.begin() + 1, r.end()); r.push_back('Z'); recent.push_back(r); }
    Bytes stream;
    for (auto &q : recent) { Bytes e; int r; Case cc = c; if (!lib_encode(cc, q, e, r)) return; stream.insert(stream.end(), e.begin(), e.end()); }
    ep::ScriptSource src(c.kinds & 1, stream); ep::ScriptSink snk(c.kinds & 2);
    RFC1055Context ctx; ctx_init(ctx, c.sof);
    for (size_t i = 0; i < recent.size(); i++) {
        size_t before = snk.got.size();
        int d = rfc1055_decode(&ctx, &src.src, &snk.snk);
        Bytes got(snk.got.begin() + (long)before, snk.got.end());
        if (d != 1 || got != recent[i]) { F(c, "concatenation", vp::fmt("frame %zu of a concatenation: rc=%d payload %s", i, d, vp::hex(got).c_str())); return; }
    }
    // the same concatenation from a polled source: in front of every frame the source once reports "nothing there yet" (the decoder has
    // consumed nothing of the coming frame); the error comes back unchanged and the frames are still delivered in order
    for (int code : {-EAGAIN, -ENODATA, -EIO}) {
        ep::ScriptSource psrc(c.kinds & 1, stream); ep::ScriptSink psnk(c.kinds & 2);
        psrc.scribble = (code != -EAGAIN);
        size_t at = 0;
        for (auto &q : recent) { psrc.transient.push_back({at, code}); Bytes e; int r; if (!lib_encode(c, q, e, r)) return; at += e.size(); }
        RFC1055Context pctx; ctx_init(pctx, c.sof);
        for (size_t i = 0; i < recent.size(); i++) {
            size_t before = psnk.got.size(), pos0 = psrc.pos;
            int d = rfc1055_decode(&pctx, &psrc.src, &psnk.snk);
            if (d != code || psnk.got.size() != before || psrc.pos != pos0) { F(c, "source-error-between-frames", vp::fmt("source reports %d in front of frame %zu: decode returned %d, consumed %zu, emitted %zu", code, i, d, psrc.pos - pos0, psnk.got.size() - before)); return; }
            d = rfc1055_decode(&pctx, &psrc.src, &psnk.snk);
            Bytes got(psnk.got.begin() + (long)before, psnk.got.end());
            if (d != 1 || got != recent[i]) { F(c, "concatenation-after-source-error", vp::fmt("the source reported %d once in front of frame %zu of a concatenation; the next call returned %d with payload %s instead of the frame", code, i, d, vp::hex(got).c_str())); return; }
        }
    }
    vp::cls("concatenation-from-polled-source");
    // one context object for both directions: whatever an earlier decode left in it (stopped in the middle of a frame, out of sync after an
    // invalid escape, or cleanly at a frame boundary), the next encode produces the same octets as a fresh context
    for (int pre = 0; pre < 4; pre++) {
        static const Bytes PRE[4] = {{END, 'a', 'b'}, {END, 'a', ESC, 'x', 'y'}, {END, 'a', END}, {'q', 'r'}};
        RFC1055Context ctx; ctx_init(ctx, c.sof);
        { ep::ScriptSource dsrc(c.kinds & 1, PRE[pre]); ep::ScriptSink dsnk(c.kinds & 2); (void)rfc1055_decode(&ctx, &dsrc.src, &dsnk.snk); }
        ep::ScriptSource esrc(c.kinds & 1, p); ep::ScriptSink esnk(c.kinds & 2);
        int er = rfc1055_encode(&ctx, &esrc.src, &esnk.snk);
        if (er < 0 || esnk.got != enc) { F(c, "encode-after-decode-on-same-context", vp::fmt("a decode that ended %s ran on the context before: encode returned %d and produced %s instead of %s", pre == 0 ? "inside a frame" : pre == 1 ? "with an invalid escape" : pre == 2 ? "at a frame boundary" : "out of sync", er, vp::hex(esnk.got).c_str(), vp::hex(enc).c_str())); return; }
    }
    vp::cls("encode-on-a-context-used-for-decoding");
}

// ---- (b) raw decoder input
static void role_raw(const Case &c) {
    const Bytes &s = c.s;
    ep::ScriptSource src(c.kinds & 1, s); ep::ScriptSink snk(c.kinds & 2);
    RFC1055Context ctx; ctx_init(ctx, c.sof);
    bool at_frame_start = true;   // decoder known to be in its initial state
    for (size_t call = 0; call < 3 * s.size() + 6; call++) {
        size_t p0 = src.pos, e0 = snk.got.size();
        // reference expectation for a call that starts at a frame boundary
        int want_rc = 0; Bytes want; size_t want_pos = p0; bool have_want = false;
        if (at_frame_start) {
            size_t i = p0; bool ok = true;
            if (c.sof) { if (i < s.size() && s[i] == END) i++; else ok = false; }   // anything else: resynchronisation behaviour, not asserted
            if (ok) {
                have_want = true;
                for (;;) {
                    if (i >= s.size()) { want_rc = -ENODATA; want_pos = s.size(); break; }
                    uint8_t b = s[i++];
                    if (b == END) { want_rc = 1; want_pos = i; break; }
                    if (b == ESC) {
                        if (i >= s.size()) { want_rc = -ENODATA; want_pos = s.size(); break; }
                        uint8_t x = s[i++];
                        if (x == ESC_END) want.push_back(END); else if (x == ESC_ESC) want.push_back(ESC);
                        else { want_rc = -EILSEQ; want_pos = i; break; }
                    } else want.push_back(b);
                }
            }
        }
        int rc = rfc1055_decode(&ctx, &src.src, &snk.snk);
        size_t consumed = src.pos - p0, emitted = snk.got.size() - e0;
        if (emitted > consumed) { F(c, "emits-more-than-consumed", vp::fmt("call %zu consumed %zu emitted %zu", call, consumed, emitted)); return; }
        if (rc != 1 && rc != -EILSEQ && rc != -ENODATA) { F(c, "return-code", vp::fmt("decode returned %d", rc)); return; }
        if (rc != -ENODATA && consumed == 0) { F(c, "no-progress", "decode returned without consuming input"); return; }
        if (have_want) {
            Bytes got(snk.got.begin() + (long)e0, snk.got.end());
            if (rc != want_rc) { F(c, want_rc == -EILSEQ ? "invalid-escape-not-reported" : "frame-start-return", vp::fmt("call %zu at a frame boundary returned %d, expected %d", call, rc, want_rc)); return; }
            if (got != want) { F(c, "frame-start-payload", "emitted " + vp::hex(got) + " expected " + vp::hex(want)); return; }
            if (src.pos != want_pos) { F(c, "frame-start-consumed", vp::fmt("consumed up to %zu expected %zu", src.pos, want_pos)); return; }
        }
        at_frame_start = (rc == 1);
        if (rc == -ENODATA) return;
    }
    F(c, "does-not-terminate", "decoder still not at the end of input");
}

// ---- (c) resynchronisation after a garbage prefix
static const std::vector<std::vector<Bytes>> PAYLOADS = {
    {{'x'}, {'y', 'z'}, {'w'}},
    {{END}, {ESC, 'B'}, {'C', END, ESC}},
    {{ESC_END, ESC_ESC}, {'q'}, {ESC, ESC, END, END}},
};
static void role_garbage(const Case &c) {
    const std::vector<Bytes> &ps = PAYLOADS[(size_t)c.variant % PAYLOADS.size()];
    Bytes stream = c.s;
    size_t d = stream.size();
    stream.push_back(END);
    for (auto &p : ps) { Bytes e = ref_encode(p, c.sof); stream.insert(stream.end(), e.begin(), e.end()); }
    ep::ScriptSource src(c.kinds & 1, stream); ep::ScriptSink snk(c.kinds & 2);
    src.scribble = (c.s.size() & 1);   // the end-of-stream condition may leave END octets in the caller's location
    RFC1055Context ctx; ctx_init(ctx, c.sof);
    std::vector<Bytes> frames;
    for (size_t call = 0; call < 3 * stream.size() + 6; call++) {
        size_t e0 = snk.got.size();
        int rc = rfc1055_decode(&ctx, &src.src, &snk.snk);
        Bytes got(snk.got.begin() + (long)e0, snk.got.end());
        if (rc == 1 && !got.empty() && src.pos > d + 1) frames.push_back(got);
        if (rc == -ENODATA) break;
        if (rc != 1 && rc != -EILSEQ) { F(c, "return-code", vp::fmt("decode returned %d", rc)); return; }
    }
    auto show = [&]() { std::string s; for (auto &f : frames) s += vp::hex(f) + " "; return s; };
    if (!c.sof) {
        if (frames != ps) F(c, "resync", "frames delivered after the delimiter: " + show());
    } else {
        bool ok = false;
        for (size_t drop = 0; drop <= 1 && !ok; drop++) { std::vector<Bytes> suf(ps.begin() + (long)drop, ps.end()); if (frames == suf) ok = true; }
        if (!ok) F(c, "resync", "frames delivered after the delimiter are not p1..pk minus at most the first: " + show());
    }
}

// ---- (d) source / sink errors are returned unchanged, output is a prefix
static void role_errors(const Case &c) {
    const Bytes &p = c.s;
    const int SRC_ERR = -EIO, SNK_ERR = -EPIPE;
    Bytes clean; int rc;
    if (!lib_encode(c, p, clean, rc)) return;   // reported by role p
    for (size_t j = 0; j < p.size(); j++) {
        ep::ScriptSource src(c.kinds & 1, p); ep::ScriptSink snk(c.kinds & 2);
        src.err_at = (long)j; src.err = SRC_ERR;
        RFC1055Context ctx; ctx_init(ctx, c.sof);
        int r = rfc1055_encode(&ctx, &src.src, &snk.snk);
        vp::count();
        if (r != SRC_ERR) { F(c, "encode-source-error", vp::fmt("source error at %zu: encoder returned %d", j, r)); return; }
        if (!ep::is_prefix(snk.got, clean)) { F(c, "encode-source-error-output", "output is not a prefix of the clean encoding"); return; }
    }
    for (size_t j = 0; j < clean.size(); j++) {
        ep::ScriptSource src(c.kinds & 1, p); ep::ScriptSink snk(c.kinds & 2);
        snk.err_at = (long)j; snk.err = SNK_ERR;
        RFC1055Context ctx; ctx_init(ctx, c.sof);
        int r = rfc1055_encode(&ctx, &src.src, &snk.snk);
        vp::count();
        if (r != SNK_ERR) { F(c, "encode-sink-error", vp::fmt("sink error at %zu: encoder returned %d", j, r)); return; }
        if (!ep::is_prefix(snk.got, clean)) { F(c, "encode-sink-error-output", "output is not a prefix of the clean encoding"); return; }
    }
    Bytes enc = ref_encode(p, c.sof);
    for (size_t j = 0; j < enc.size(); j++) {
        ep::ScriptSource src(c.kinds & 1, enc); ep::ScriptSink snk(c.kinds & 2);
        src.err_at = (long)j; src.err = SRC_ERR; src.scribble = (j & 1);   // every other failing call leaves END octets in the caller's location
        RFC1055Context ctx; ctx_init(ctx, c.sof);
        int r = rfc1055_decode(&ctx, &src.src, &snk.snk);
        vp::count();
        if (r != SRC_ERR) { F(c, "decode-source-error", vp::fmt("source error at %zu: decoder returned %d", j, r)); return; }
        if (!ep::is_prefix(snk.got, p)) { F(c, "decode-source-error-output", "output is not a prefix of the payload"); return; }
    }
    for (size_t j = 0; j < p.size(); j++) {
        ep::ScriptSource src(c.kinds & 1, enc); ep::ScriptSink snk(c.kinds & 2);
        snk.err_at = (long)j; snk.err = SNK_ERR;
        RFC1055Context ctx; ctx_init(ctx, c.sof);
        int r = rfc1055_decode(&ctx, &src.src, &snk.snk);
        vp::count();
        if (r != SNK_ERR) { F(c, "decode-sink-error", vp::fmt("sink error at %zu: decoder returned %d", j, r)); return; }
        if (!ep::is_prefix(snk.got, p)) { F(c, "decode-sink-error-output", "output is not a prefix of the payload"); return; }
    }
}

static std::vector<Bytes> g_recent[2];
static void run_case(const Case &c) {
    g_cur = c;
    switch (c.role) {
    case 'p': role_payload(c, g_recent[c.sof]); break;
    case 'r': role_raw(c); break;
    case 'g': role_garbage(c); break;
    case 'e': role_errors(c); break;
    }
    vp::count();
}

static bool has(const Bytes &s, uint8_t b) { return std::find(s.begin(), s.end(), b) != s.end(); }
static bool garbage_nontrivial(const Bytes &g) {
    if (g.empty()) return false;
    if (g.back() == ESC) return true;
    for (size_t i = 0; i + 1 < g.size(); i++) if (g[i] == ESC && g[i + 1] != ESC_END && g[i + 1] != ESC_ESC) return true;
    return g[0] != END;   // SOF mode: stream does not begin with a start octet
}

static void run() {
    auto &a = vp::args();
    if (a.shard == 0) vp::pp_phase(vp_pp_rfc1055, "rfc1055");
    vp::CaseScope scope([] { return ser(g_cur); });
    size_t maxlen = a.thorough() ? 10 : 8;
#ifdef VP_LIGHT
    maxlen = a.thorough() ? 8 : 6;   // additional build configurations: two symbols less
#endif
    vp::stats().rule = vp::fmt("enum: all strings of length <= %zu over {END, ESC, ESC_END, ESC_ESC, 'A'} as payloads (round trip, structure, bound, concatenation), as raw decoder input "
                               "(per-call reference at frame boundaries), as garbage prefixes before END + 3 frames (3 payload triples) and with source/sink error injection at every position "
                               "(lengths <= 5); classic and start-of-frame mode; octet- and chunk-style endpoints, chunk sinks with short writes for the encoder; a control octet behind every run length 0..600 of ordinary octets; every 1- and 2-octet payload and raw input over all 256 octet values, ESC followed by every octet; plus random full-alphabet payloads up to 1 KiB", maxlen);
    vp::stats().exhaustive = true;
    static const uint8_t ALPHA[5] = {END, ESC, ESC_END, ESC_ESC, 'A'};
    uint64_t idx = 0;
    for (size_t len = 0; len <= maxlen; len++) {
        uint64_t total = 1; for (size_t i = 0; i < len; i++) total *= 5;
        for (uint64_t code = 0; code < total; code++, idx++) {
            if (idx % a.nshards != a.shard) continue;
            Bytes s(len); uint64_t x = code;
            for (size_t i = 0; i < len; i++) { s[i] = ALPHA[x % 5]; x /= 5; }
            int kinds = (int)(idx / a.nshards % 4);
            for (int sof = 0; sof < 2; sof++) {
                run_case({'p', (bool)sof, kinds | ((idx / a.nshards / 4 % 2) ? 4 : 0), s, 0});
                run_case({'r', (bool)sof, (kinds + 1) % 4, s, 0});
                run_case({'g', (bool)sof, (kinds + 2) % 4, s, (int)(code % 3)});
                if (len <= 5) run_case({'e', (bool)sof, (kinds + 3) % 4, s, 0});
            }
            if (has(s, END) || has(s, ESC)) { vp::nontrivial(vp::mix(code, len)); vp::cls("payload-with-END-or-ESC"); }
            if (garbage_nontrivial(s)) { vp::nontrivial(vp::mix(code, len + 100)); vp::cls("garbage-leaves-decoder-non-initial"); }
            if (vp::want_sample()) vp::sample(ser({'g', false, kinds, s, (int)(code % 3)}));
            if (vp::too_many_failures()) return;
        }
    }
    // the full octet alphabet at the smallest scope: every 1- and 2-octet payload, every raw input "x y END" and "ESC x END"
    for (unsigned x = 0; x < 256; x++) {
        if (x % a.nshards != a.shard) continue;
        for (int sof = 0; sof < 2; sof++) {
            run_case({'p', (bool)sof, (int)(x % 8), Bytes{(uint8_t)x}, 0});
            run_case({'r', (bool)sof, (int)((x + 1) % 4), Bytes{ESC, (uint8_t)x, END}, 0});
            run_case({'r', (bool)sof, (int)((x + 2) % 4), Bytes{END, ESC, (uint8_t)x, 'B', END, 'C', END}, 0});
            run_case({'g', (bool)sof, (int)((x + 3) % 4), Bytes{'A', ESC, (uint8_t)x}, (int)(x % 3)});
            for (unsigned y = 0; y < 256; y++) {
                run_case({'p', (bool)sof, (int)((x + y) % 8), Bytes{(uint8_t)x, (uint8_t)y}, 0});
                if (sof == 0) run_case({'r', false, (int)((x + y) % 4), Bytes{(uint8_t)x, (uint8_t)y, END}, 0});
            }
        }
        vp::nontrivial(vp::mix(x, 424242)); vp::cls("full-alphabet-1-2-octets", 2 * (4 + 256) + 256);
    }
    // a control octet behind a run of k ordinary octets, for every k up to 600 (an encoder that gathers runs has its boundaries somewhere in there)
    for (size_t k = a.shard; k <= 600; k += a.nshards) {
        for (int sof = 0; sof < 2; sof++) for (uint8_t ctl : {END, ESC}) {
            Bytes p(k); for (size_t i = 0; i < k; i++) p[i] = (uint8_t)('a' + i % 23);
            p.push_back(ctl);
            run_case({'p', (bool)sof, (int)((k + sof) % 8), p, 0});
            Bytes q = p; for (size_t i = 0; i < k; i++) q.push_back((uint8_t)('B' + i % 19)); q.push_back(ctl == END ? ESC : END); q.push_back('z');
            run_case({'p', (bool)sof, (int)((k + sof + 3) % 8), q, 0});
        }
        vp::nontrivial(vp::mix(k, 515151)); vp::cls("control-octet-behind-run-of-k-ordinary-octets", 8);
    }
    // random payloads, full alphabet, up to 1 KiB
    vp::Rng rng(a.seed * 6151 + a.shard);
    size_t nrand = (a.thorough() ? 40000 : 3000) / a.nshards;
    for (size_t i = 0; i < nrand; i++) {
        size_t len = rng.chance(1, 5) ? (size_t)rng.range(200, 1024) : (size_t)rng.range(0, 40);
        Bytes p(len);
        for (auto &b : p) b = rng.chance(1, 3) ? ALPHA[rng.below(4)] : rng.byte();
        int kinds = (int)rng.below(4);
        bool sof = rng.chance(1, 2);
        run_case({'p', sof, kinds | (rng.chance(1, 3) ? 4 : 0), p, 0});
        if (len <= 40) run_case({'e', sof, kinds, p, 0});
        run_case({'r', sof, kinds, p, 0});
        vp::nontrivial(vp::fnv(p.data(), p.size(), 99));
        vp::cls("random-payloads");
    }
}
static bool replay(const std::string &text) {
    if (text.rfind("pp ", 0) == 0) { vp::pp_phase(vp_pp_rfc1055, "rfc1055"); return vp::stats().failures.empty(); }
    auto w = vp::split(vp::lines(text).at(0));
    if (w.size() != 6 || w[0] != "slip") return false;
    Case c{w[1][0], atoi(w[2].c_str()) != 0, atoi(w[3].c_str()), w[5] == "-" ? Bytes() : vp::unhex(w[5]), atoi(w[4].c_str())};
    vp::CaseScope scope([] { return ser(g_cur); });
    run_case(c);
    return vp::stats().failures.empty();
}
VP_MAIN(run, replay)
