// C18 — byte buffer: list model + step oracle shared by the enumerating and
// the rapidcheck engine.
#pragma once
#include "support/vp.hpp"
#include "support/ufw.hpp"
#include <ufw/byte-buffer.h>

namespace c18 {

enum Kind : int { ADD, CONSUME, ATMOST, REWIND, RESET, CLEAR, REPEAT, QUERY, SETBAD, SELFADD, NKINDS };   // SETBAD n: a set-up call with invalid arguments (variant n) on the buffer in use; SELFADD n: add whose source lies inside the buffer itself (n % 2: 0 the unread region's start, 1 the memory's start), n / 2 octets
static const char *kind_name[] = {"add", "consume", "atmost", "rewind", "reset", "clear", "repeat", "query", "setbad", "selfadd"};
struct Op { int kind; size_t n; };

struct Model {
    size_t size = 0, off = 0;
    std::vector<uint8_t> content;   // [0, used)
    size_t used() const { return content.size(); }
    size_t rest() const { return content.size() - off; }
    size_t avail() const { return size - content.size(); }
};

struct Impl {
    ByteBuffer b;
    uint8_t *mem = nullptr;   // exact-size heap block
    Impl() { memset(&b, 0, sizeof b); }
    Impl(const Impl &o) : b(o.b) { mem = (uint8_t *)malloc(o.b.size); memcpy(mem, o.mem, o.b.size); b.data = mem; }
    Impl &operator=(const Impl &) = delete;
    ~Impl() { free(mem); }
};

struct Case {
    size_t size, used, offset;
    std::vector<Op> ops;
};
inline std::string serialise(const Case &c, size_t upto = (size_t)-1) {
    std::string s = vp::fmt("init %zu %zu %zu\n", c.size, c.used, c.offset);
    for (size_t i = 0; i < c.ops.size() && i < upto; i++) s += vp::fmt("%s %zu\n", kind_name[c.ops[i].kind], c.ops[i].n);
    return s;
}
inline bool parse(const std::string &text, Case &c) {
    bool have = false; c.ops.clear();
    for (auto &l : vp::lines(text)) {
        auto w = vp::split(l);
        if (w.empty()) continue;
        if (w[0] == "init" && w.size() == 4) { c.size = strtoull(w[1].c_str(), 0, 10); c.used = strtoull(w[2].c_str(), 0, 10); c.offset = strtoull(w[3].c_str(), 0, 10); have = true; continue; }
        int k = -1;
        for (int i = 0; i < NKINDS; i++) if (w[0] == kind_name[i]) k = i;
        if (k < 0 || w.size() < 2) return false;
        c.ops.push_back({k, (size_t)strtoull(w[1].c_str(), 0, 10)});
    }
    return have;
}

// fresh octets: a running label, never 0 (clear writes zeros) and never 0xa5 (block fill)
struct Labels { unsigned next = 1; uint8_t get() { uint8_t v = (uint8_t)next; next = next % 250 + 1; if (v == 0xa5) return get(); return v; } };

inline void init(const Case &c, Impl &im, Model &m, Labels &lab) {
    im.mem = (uint8_t *)malloc(c.size);
    memset(im.mem, 0xa5, c.size);
    m.size = c.size; m.off = c.offset; m.content.clear();
    for (size_t i = 0; i < c.used; i++) { uint8_t v = lab.get(); im.mem[i] = v; m.content.push_back(v); }
}

// compare implementation and model; returns a failure tag or ""
inline std::string compare(const Impl &im, const Model &m) {
    if (im.b.data != im.mem) return "data-pointer-changed";
    if (im.b.size != m.size) return "size-changed";
    if (!(im.b.offset <= im.b.used && im.b.used <= im.b.size)) return "invariant";
    if (im.b.used != m.used()) return "used";
    if (im.b.offset != m.off) return "offset";
    if (m.used() && memcmp(im.mem, m.content.data(), m.used()) != 0) return "content";
    return "";
}

// Apply one op to both; returns "" or "<op>:<tag>".
inline std::string step(Impl &im, Model &m, const Op &op, Labels &lab) {
    const char *name = kind_name[op.kind];
    auto tag = [&](const std::string &t) { return std::string(name) + ":" + t; };
    switch (op.kind) {
    case ADD: {
        vp::Block src(op.n);
        for (size_t i = 0; i < op.n; i++) src.p[i] = lab.get();
        int rc = byte_buffer_add(&im.b, src.p, op.n);
        if (op.n <= m.avail()) {
            if (rc != 0) return tag("refused-although-space");
            m.content.insert(m.content.end(), src.p, src.p + op.n);
        } else if (rc >= 0) return tag("accepted-without-space");
        break;
    }
    case CONSUME: {
        // a request larger than anything unread must be refused before any access, so a small destination suffices for huge n
        vp::Block dst(std::min<size_t>(op.n, m.size + 2));
        int rc = byte_buffer_consume(&im.b, dst.p, op.n);
        if (op.n <= m.rest()) {
            if (rc != 0) return tag("refused-although-data");
            if (op.n && memcmp(dst.p, m.content.data() + m.off, op.n) != 0) return tag("wrong-octets");
            m.off += op.n;
        } else if (rc >= 0) return tag("accepted-without-data");
        break;
    }
    case ATMOST: {
        vp::Block dst(std::min<size_t>(op.n, m.size + 2));
        ssize_t rc = byte_buffer_consume_at_most(&im.b, dst.p, op.n);
        if (m.rest() == 0) {
            if (rc >= 0) return tag("accepted-on-empty");
        } else {
            size_t want = std::min(op.n, m.rest());
            if (rc < 0) return tag("refused-although-data");
            if ((size_t)rc != want) return tag("wrong-count");
            if (want && memcmp(dst.p, m.content.data() + m.off, want) != 0) return tag("wrong-octets");
            m.off += want;
        }
        break;
    }
    case REWIND: {
        int rc = byte_buffer_rewind(&im.b);
        if (rc != 0) return tag("refused");
        m.content.erase(m.content.begin(), m.content.begin() + (long)m.off);
        m.off = 0;
        break;
    }
    case RESET: byte_buffer_reset(&im.b); m.content.clear(); m.off = 0; break;
    case CLEAR: {
        byte_buffer_clear(&im.b); m.content.clear(); m.off = 0;
        for (size_t i = 0; i < m.size; i++) if (im.mem[i] != 0) return tag("not-zeroed");
        break;
    }
    case REPEAT: byte_buffer_repeat(&im.b); m.off = 0; break;
    case SELFADD: {
        // the octets to append may come from the buffer's own memory (re-appending unread data, copying a header): as long as source and
        // destination do not overlap this is an ordinary add
        size_t cnt = op.n / 2, from = (op.n % 2) ? 0 : m.off;
        if (cnt == 0 || from + cnt > m.used() || cnt > m.avail()) break;     // would overlap the destination or not fit: not generated
        std::vector<uint8_t> want(m.content.begin() + (long)from, m.content.begin() + (long)(from + cnt));
        int rc = byte_buffer_add(&im.b, im.mem + from, cnt);
        if (rc != 0) return tag("refused-although-space");
        m.content.insert(m.content.end(), want.begin(), want.end());
        break;
    }
    case SETBAD: {
        // set-up refuses invalid arguments - also on a buffer that is in use, which then stays what it was
        vp::Block other(m.size + 3);
        int rc;
        switch (op.n % 5) {
        case 0: rc = byte_buffer_set(&im.b, other.p, m.size + 3, m.size + 4, 0); break;      // used > size
        case 1: rc = byte_buffer_set(&im.b, other.p, m.size + 3, 1, 2); break;               // offset > used
        case 2: rc = byte_buffer_set(&im.b, nullptr, m.size, 0, 0); break;                   // null memory
        case 3: rc = byte_buffer_set(&im.b, im.mem, 0, 0, 0); break;                         // zero size
        default: rc = byte_buffer_set(&im.b, other.p, 1, 2, 0); break;                       // used > size, smaller memory
        }
        if (rc >= 0) return tag("invalid-accepted");
        std::string c = compare(im, m);          // before `other` goes away
        if (!c.empty()) return tag("refused-but-" + c);
        break;
    }
    case QUERY:
        if (byte_buffer_avail(&im.b) != m.avail()) return tag("avail");
        if (byte_buffer_rest(&im.b) != m.rest()) return tag("rest");
        break;
    }
    std::string c = compare(im, m);
    if (!c.empty()) return tag(c);
    return "";
}

// full history from the serialised form; returns failure key or ""
inline std::string run_case(const Case &c, size_t *failed_at = nullptr) {
    Impl im; Model m; Labels lab;
    if (c.size == 0 || c.used > c.size || c.offset > c.used) return "";
    init(c, im, m, lab);
    if (byte_buffer_set(&im.b, im.mem, c.size, c.used, c.offset) != 0) return "set:refused-valid";
    std::string r = compare(im, m);
    if (!r.empty()) return "set:" + r;
    for (size_t i = 0; i < c.ops.size(); i++) {
        r = step(im, m, c.ops[i], lab);
        if (!r.empty()) { if (failed_at) *failed_at = i; return r; }
    }
    return "";
}

} // namespace c18
