// C07 — shared oracle: feed one de-framed octet string to the receiver, compare verdict / accesses / reply with the reference.
#pragma once
#include "props/regp.hpp"
#include <memory>

namespace c07 {
using namespace rx;

struct Outcome { std::string key, msg; rp::Verdict ref; bool collision = false; };

// raw: de-framed octets; guaranteed: the caller knows this is a corruption that the checksums/size rule must catch
// mode 0: the frame fits into the receive block; 1: the block is one octet too small for it; 2: the block allocation fails;
// 3: as 2, and while the frame is coming in the source driver serves a second instance (whose allocation fails too) with an intact request
inline Outcome judge(bool serial, bool mem16, const Bytes &raw, bool guaranteed, size_t slack = 64, int mode = 0) {
    Outcome o;
    rp::Frame ref;
    o.ref = rp::decode(raw, ref);
    size_t block = frame_struct_size() + raw.size() + slack;
    if (mode == 1) block = frame_struct_size() + raw.size() - 1;
    Session S(serial, mem16, block, true, true, rp::on_wire(serial, raw));
    // the receiving instance has a history of its own: before the frame arrives it has issued 0..3 requests (a node that is requester and
    // responder on one instance; a client whose response gets damaged). What it sent is not part of the judgement.
    { unsigned hist = (unsigned)(vp::fnv(raw.data(), raw.size(), 11) % 4); for (unsigned i = 0; i < hist; i++) { if (mem16) (void)regp_req_read16(&S.p, 0x100u + i, 1); else (void)regp_req_read8(&S.p, 0x100u + i, 1); } (void)S.take_output(); S.led.allocs = 0; }
    if (mode >= 2) S.led.failmask = 1;
    be().reset();
    std::unique_ptr<Session> N; Bytes nout; bool nested = false;
    if (mode == 3) {
        rp::Frame other = rp::make_request(true, true, mem16, 0x0022, 0x00020000u, 1, Bytes(mem16 ? 2 : 1, 0x5a));
        N.reset(new Session(serial, mem16, frame_struct_size() + 64, true, true, rp::on_wire(serial, rp::encode(other))));
        N->led.failmask = 1;
        size_t wire = S.src.data.size();
        S.src.pos_hook_at = wire > 2 ? 1 + vp::fnv(raw.data(), raw.size(), 3) % (wire - 1) : 1;
        S.src.pos_hook = [&]() { nested = true; RPMaybeFrame nmf; memset(&nmf, 0, sizeof nmf); (void)regp_recv(&N->p, &nmf); (void)regp_process(&N->p, &nmf); if (nmf.frame) regp_free(&N->p, nmf.frame); nout = N->take_output(); };
    }
    RPMaybeFrame mf; memset(&mf, 0, sizeof mf);
    int rr = regp_recv(&S.p, &mf);
    S.src.pos_hook = nullptr;
    int pr = regp_process(&S.p, &mf);
    (void)rr; (void)pr;
    Bytes out = S.take_output();
    int eid = mf.error.id;
    if (mf.frame) regp_free(&S.p, mf.frame);
    size_t calls = be().log.size();
    std::vector<Bytes> frames; std::vector<rp::Frame> replies;
    bool split_ok = rp::split_wire(serial, out, frames);
    bool reply_conformant = true; rp::Verdict reply_verdict = rp::V_OK;
    for (auto &f : frames) { rp::Frame d; rp::Verdict rv = rp::decode(f, d); if (rv != rp::V_OK && rv != rp::V_DONTCARE) { reply_conformant = false; reply_verdict = rv; } replies.push_back(d); }
    auto fail = [&](const std::string &k, const std::string &m) { o.key = k; o.msg = m + vp::fmt(" [reference: %s; receiver error.id=%d, %zu accesses, %zu reply frames]", rp::verdict_name[o.ref], eid, calls, replies.size()); return o; };
    if (S.led.outstanding() || S.led.double_free) return fail("ledger", "allocation ledger unbalanced");
    if (!split_ok) return fail("reply-not-framed", "reply octets are not well-formed frames");
    // whatever is answered is itself a frame the peer can read: a meta message or error response that the reference reading rejects never arrives
    // (not judged for frames that could not be stored and are not well-formed requests: replies to those are don't-care, see the assumptions)
    if (!reply_conformant && mode == 0) return fail("reply-not-conformant", vp::fmt("a reply frame is rejected by the reference reading of the protocol document (%s)", rp::verdict_name[reply_verdict]));
    bool acked = false;
    for (auto &r : replies) if (r.is_response() && r.meta == rp::C_ACK) acked = true;
    if (mode != 0) {
        // the frame could not be stored: never executed, never acknowledged - and a header fault is still reported as one (nothing of a
        // damaged header is mirrored in a busy / overflow response)
        if (calls) return fail("not-stored:executed", "a frame that could not be stored reached the memory back-end");
        if (acked) return fail("not-stored:acknowledged", "a frame that could not be stored was acknowledged");
        if (nested) {
            // the other port's request was intact: whatever is answered there is answered to that request
            std::vector<Bytes> nf; if (!rp::split_wire(serial, nout, nf)) return fail("nested:reply-not-framed", "the second instance's reply is not well-formed");
            for (auto &f : nf) { rp::Frame d; rp::decode(f, d); if (d.is_response() && (d.meta == rp::C_ACK || d.seq != 0x0022 || d.addr != 0x00020000u)) return fail("nested:reply-mixes-frames", vp::fmt("the second instance answered its intact request (seq 0x22, address 0x20000) with %s", rp::show(d).c_str())); if (d.type == rp::META) return fail("nested:intact-request-reported-as-header-fault", "the second instance answered its intact request with a meta message"); }
            if (N->led.outstanding() || N->led.double_free) return fail("ledger", "allocation ledger of the second instance unbalanced");
        }
        bool parseable = mode >= 2 || raw.size() - 1 >= 16;
        if (parseable && o.ref == rp::V_BAD_HDCRC && !(replies.size() == 1 && replies[0].type == rp::META && replies[0].meta == 2)) return fail("not-stored:bad-header-checksum-not-reported", vp::fmt("mode %d: header checksum does not match but the reply is not the header-checksum meta message", mode));
        if (parseable && o.ref == rp::V_BAD_HEADER && raw.size() >= 12 && !(replies.size() == 1 && replies[0].type == rp::META && replies[0].meta == 1)) return fail("not-stored:bad-header-encoding-not-reported", vp::fmt("mode %d: header does not parse but the reply is not the header-encoding meta message", mode));
        return o;
    }
    if (o.ref == rp::V_DONTCARE) return o;
    if (o.ref == rp::V_OK) {
        if (guaranteed) { o.collision = true; return o; }     // the corruption produced another valid frame: the reference is the judge, nothing to assert
        if (eid != 0) return fail("valid-frame-rejected", "reference accepts the frame");
        return o;
    }
    // the frame is invalid: never executed, never acknowledged
    if (calls) return fail(std::string("executed:") + rp::verdict_name[o.ref], "an invalid frame reached the memory back-end");
    if (acked) return fail(std::string("acknowledged:") + rp::verdict_name[o.ref], "an invalid frame was acknowledged");
    int want_eid = o.ref == rp::V_BAD_HEADER ? EBADMSG : o.ref == rp::V_BAD_HDCRC ? EILSEQ : o.ref == rp::V_BAD_SIZE ? EFAULT : EPROTO;
    if (eid != want_eid) return fail(std::string("verdict:") + rp::verdict_name[o.ref], vp::fmt("receiver classifies the frame as %d, reference as %d", eid, want_eid));
    if (o.ref == rp::V_BAD_HEADER || o.ref == rp::V_BAD_HDCRC) {
        int m = o.ref == rp::V_BAD_HEADER ? 1 : 2;
        if (replies.size() != 1 || replies[0].type != rp::META || replies[0].meta != m) return fail(std::string("reply:") + rp::verdict_name[o.ref], vp::fmt("expected the meta message %d", m));
    } else {
        int code = o.ref == rp::V_BAD_SIZE ? rp::C_EPAYLOADSIZE : rp::C_EPAYLOADCRC;
        if (ref.is_request()) {
            if (replies.size() != 1 || !replies[0].is_response() || replies[0].meta != code || replies[0].seq != ref.seq || replies[0].addr != ref.addr ||
                replies[0].type != (ref.type == rp::READ_REQ ? rp::READ_RESP : rp::WRITE_RESP))
                return fail(std::string("reply:") + rp::verdict_name[o.ref], vp::fmt("expected the %s response to the request", rp::code_name[code]));
        } else if (!replies.empty()) return fail("reply:to-non-request", "a damaged response/meta frame was answered");
    }
    return o;
}

} // namespace c07
