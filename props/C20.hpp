// C20 — s-expression reader: independent reference reader, tree model, oracle.
#pragma once
#include <cerrno>
#include "shims/c_callers.h"
#include "support/vp.hpp"
#include "support/ufw.hpp"
#include <memory>
#include <ufw/sx.h>

// ---- allocation ledger (sx.c is compiled with malloc/calloc/free renamed to these)
namespace c20 { struct Ledger { long live = 0; unsigned long allocs = 0; }; inline Ledger &ledger() { static Ledger l; return l; } }
extern "C" {
__attribute__((used)) inline void *vp_malloc(size_t n) { c20::ledger().live++; c20::ledger().allocs++; return malloc(n); }
__attribute__((used)) inline void *vp_calloc(size_t a, size_t b) { c20::ledger().live++; c20::ledger().allocs++; return calloc(a, b); }
__attribute__((used)) inline void vp_free(void *p) { if (p) c20::ledger().live--; free(p); }
__attribute__((used)) inline void *vp_realloc(void *p, size_t n) { if (!p) c20::ledger().live++; return realloc(p, n); }
__attribute__((used)) inline char *vp_strdup(const char *s) { c20::ledger().live++; return strdup(s); }
}

namespace c20 {

struct Tree {
    enum Kind { SYM, INT, LIST } kind;
    std::string sym; uint64_t val = 0; std::vector<Tree> items;
    static Tree symbol(const std::string &s) { Tree t; t.kind = SYM; t.sym = s; return t; }
    static Tree integer(uint64_t v) { Tree t; t.kind = INT; t.val = v; return t; }
    static Tree list(std::vector<Tree> it = {}) { Tree t; t.kind = LIST; t.items = std::move(it); return t; }
    size_t depth() const { size_t d = 0; for (auto &i : items) d = std::max(d, i.depth()); return kind == LIST ? d + 1 : 0; }
    size_t nodes() const { size_t n = 1; for (auto &i : items) n += i.nodes(); return n; }
    bool has_nested_empty(bool top = true) const { if (kind != LIST) return false; if (!top && items.empty()) return true; for (auto &i : items) if (i.has_nested_empty(false)) return true; return false; }
};
inline std::string show(const Tree &t) {
    if (t.kind == Tree::SYM) return t.sym;
    if (t.kind == Tree::INT) return std::to_string(t.val);
    std::string s = "("; for (size_t i = 0; i < t.items.size(); i++) { if (i) s += " "; s += show(t.items[i]); } return s + ")";
}

static const char *SYMINIT = "abcdefghijklmnopqrstuvwxyzABCDEFGHIJKLMNOPQRSTUVWXYZ+%|/_:;.!?$&=*<>~";
inline bool is_ws(unsigned char c) { return c == ' ' || c == '\t' || c == '\n' || c == '\v' || c == '\f' || c == '\r'; }
inline bool is_delim(unsigned char c) { return c == '(' || c == ')' || is_ws(c); }
inline bool is_syminit(unsigned char c) { return c && strchr(SYMINIT, c) != nullptr; }
inline bool is_symch(unsigned char c) { return is_syminit(c) || (c >= '0' && c <= '9') || c == '-'; }
inline int hexval(unsigned char c) { if (c >= '0' && c <= '9') return c - '0'; if (c >= 'a' && c <= 'f') return c - 'a' + 10; if (c >= 'A' && c <= 'F') return c - 'A' + 10; return -1; }

enum Verdict { ACCEPT, REJECT, DONTCARE };
struct RefResult { Verdict v; Tree tree; size_t pos; bool after_valid_token = false; };

struct RefReader {
    const std::string &s; size_t i = 0; bool dontcare = false; size_t tokens = 0;
    explicit RefReader(const std::string &in) : s(in) {}
    void skip() { while (i < s.size() && is_ws((unsigned char)s[i])) i++; }
    // returns false on reject
    bool expr(Tree &out, bool top) {
        skip();
        if (i >= s.size()) { if (top) dontcare = true; return false; }
        unsigned char c = (unsigned char)s[i];
        if (c == ')') { if (top) dontcare = true; return false; }
        if (c == '(') {
            i++; tokens++;
            out = Tree::list();
            for (;;) {
                skip();
                if (i >= s.size()) return false;                  // unexpected end
                if (s[i] == ')') { i++; tokens++; return true; }
                Tree e;
                if (!expr(e, false)) return false;
                out.items.push_back(std::move(e));
            }
        }
        size_t j = i;
        while (j < s.size() && !is_delim((unsigned char)s[j])) j++;
        std::string tok = s.substr(i, j - i);
        bool alldigits = true; for (unsigned char ch : tok) if (ch < '0' || ch > '9') alldigits = false;
        if (alldigits) {
            if (tok.size() > 19) { dontcare = true; return false; }
            uint64_t v = 0; for (unsigned char ch : tok) v = v * 10 + (ch - '0');
            out = Tree::integer(v); i = j; tokens++; return true;
        }
        if (tok.size() >= 2 && tok[0] == '#' && tok[1] == 'X') { dontcare = true; return false; }   // prefix letter case: not specified
        if (tok.size() >= 3 && tok[0] == '#' && tok[1] == 'x') {
            bool allhex = true; for (size_t k = 2; k < tok.size(); k++) if (hexval((unsigned char)tok[k]) < 0) allhex = false;
            if (allhex) {
                if (tok.size() - 2 > 16) { dontcare = true; return false; }
                uint64_t v = 0; for (size_t k = 2; k < tok.size(); k++) v = v * 16 + (uint64_t)hexval((unsigned char)tok[k]);
                out = Tree::integer(v); i = j; tokens++; return true;
            }
            return false;
        }
        if (is_syminit((unsigned char)tok[0])) {
            bool ok = true; for (unsigned char ch : tok) if (!is_symch(ch)) ok = false;
            if (ok) { out = Tree::symbol(tok); i = j; tokens++; return true; }
        }
        return false;
    }
};
inline RefResult reference(const std::string &in) {
    RefResult r; r.pos = 0;
    for (unsigned char c : in) if (c == 0 || c >= 0x80) { r.v = DONTCARE; return r; }
    RefReader rd(in);
    Tree t;
    bool ok = rd.expr(t, true);
    if (rd.dontcare) { r.v = DONTCARE; return r; }
    r.after_valid_token = rd.tokens > 0;
    if (ok) { r.v = ACCEPT; r.tree = std::move(t); r.pos = rd.i; } else r.v = REJECT;
    return r;
}

// compare the library's tree with the model; "" or a description
inline std::string same(const struct sx_node *n, const Tree &t, int depth = 0) {
    if (!n) return "NULL node";
    if (depth > 100000) return "too deep";
    switch (t.kind) {
    case Tree::SYM: if (n->type != SXT_SYMBOL) return "expected symbol " + t.sym; if (t.sym != n->data.symbol) return "symbol '" + std::string(n->data.symbol) + "' expected '" + t.sym + "'"; return "";
    case Tree::INT: if (n->type != SXT_INTEGER) return "expected integer"; if (n->data.u64 != t.val) return vp::fmt("integer %llu expected %llu", (unsigned long long)n->data.u64, (unsigned long long)t.val); return "";
    default: break;
    }
    const struct sx_node *p = n;
    for (size_t i = 0; i < t.items.size(); i++) {
        if (p->type != SXT_PAIR) return vp::fmt("list ends after %zu of %zu elements", i, t.items.size());
        std::string r = same(p->data.pair->car, t.items[i], depth + 1);
        if (!r.empty()) return r;
        p = p->data.pair->cdr;
        if (!p) return "NULL cdr";
    }
    if (p->type != SXT_EMPTY_LIST) return vp::fmt("list has more than %zu elements / is improper", t.items.size());
    return "";
}

// The oracle for one input; returns failure key ("" = pass) and message.
struct Outcome { std::string key, msg; Verdict ref; bool nontrivial; };
inline Outcome check_input(const std::string &in) {
    Outcome o; o.nontrivial = false;
    RefResult r = reference(in);
    o.ref = r.v;
    // ambient state the parser must not depend on: the caller's errno (a previous conversion may have left ERANGE there)
    bool has_digit = in.find_first_of("0123456789") != std::string::npos;
    for (int pa = 0; pa < 10; pa++) {
        int pres = pa < 6 ? pa % 3 : (pa - 6) / 2 + 3, ambient = (pa < 6 ? pa >= 3 : (pa & 1)) || !has_digit ? ERANGE : 0;
        if ((pa < 6 ? pa >= 3 : (pa & 1)) && !has_digit) continue;
        // 3: from C code, the text in a 64-octet line buffer with stale octets behind the terminator; 4: in a 48-octet struct member
        if (pres >= 3 && (memchr(in.data(), 0, in.size()) || in.size() > (pres == 3 ? 61u : 47u))) continue;
        if (pres == 4 && (vp::fnv((const uint8_t *)in.data(), in.size(), 11) & 3)) continue;   // the struct-member form for a quarter of the inputs
        // 0: NUL-terminated (exact strlen+1 block), 1: length-delimited, exact-size block without terminator,
        // 2: sx_parse() from a start index: the input sits behind three octets (brackets, digits, a hex literal or a symbol) that the reader has no business looking at
        if (pres == 0 && memchr(in.data(), 0, in.size())) continue;
        static const char *PREFIX[4] = {"((x", "(12", "#x9", "a) "};   // what stands in front of the start index varies: brackets, digits, a hex literal, a symbol
        const char *prefix = PREFIX[vp::fnv((const uint8_t *)in.data(), in.size(), 7) % 4];
        const size_t pre = pres == 2 ? 3 : 0;
        size_t blk = pres == 0 ? in.size() + 1 : (pre + in.size() ? pre + in.size() : 1);
        char *mem = (char *)malloc(blk);
        if (pre) memcpy(mem, prefix, pre);
        memcpy(mem + pre, in.data(), in.size());
        if (pres == 0) mem[in.size()] = 0;
        // every seventh input of the length-delimited presentation lies in read-only memory
        std::unique_ptr<vp::RoBlock> ro;
        if (pres == 1 && !in.empty() && vp::fnv((const uint8_t *)in.data(), in.size(), 5) % 7 == 0) { ro.reset(new vp::RoBlock(in.data(), in.size())); if (ro->p) { free(mem); mem = (char *)ro->p; } else ro.reset(); }
        long live0 = ledger().live;
        errno = ambient;
        struct sx_parse_result res = pres == 0 ? sx_parse_string(mem) : pres == 1 ? sx_parse_stringn(mem, in.size()) : pres == 2 ? sx_parse(mem, pre + in.size(), pre)
                                     : pres == 3 ? vp_sx_parse_line(in.data(), in.size()) : vp_sx_parse_member(in.data(), in.size());
        if (pres == 2 && res.position >= pre) res.position -= pre; else if (pres == 2 && (res.status == SXS_SUCCESS)) res.position = (size_t)-1;
        static const char *PN[5][2] = {{"string:", "string:errno-preset:"}, {"stringn:", "stringn:errno-preset:"}, {"parse-from-index:", "parse-from-index:errno-preset:"},
                                       {"c-line-buffer:", "c-line-buffer:errno-preset:"}, {"c-struct-member:", "c-struct-member:errno-preset:"}};
        const char *P = PN[pres][ambient && has_digit ? 1 : 0];
        std::string key, msg;
        if (r.v == ACCEPT) {
            if (res.status != SXS_SUCCESS || !res.node) { key = "accept-refused"; msg = vp::fmt("status %d for a complete expression", (int)res.status); }
            else {
                std::string d = same(res.node, r.tree);
                if (!d.empty()) { key = "tree-differs"; msg = d; }
                else if (res.position != r.pos) { key = "position"; msg = vp::fmt("position %zu, expression ends at %zu", res.position, r.pos); }
            }
        } else if (r.v == REJECT) {
            if (res.status == SXS_SUCCESS || res.status == SXS_FOUND_LIST) { key = "reject-accepted"; msg = vp::fmt("status %d for an input that does not begin with a complete expression", (int)res.status); }
            else if (res.node) { key = "error-with-tree"; msg = "error status but a tree is returned"; }
        }
        if (res.node) sx_destroy(&res.node);
        if (key.empty() && ledger().live != live0) { key = "leak"; msg = vp::fmt("%ld allocations outstanding after the parse", ledger().live - live0); }
        if (!ro) free(mem);
        if (!key.empty()) { o.key = std::string(P) + key; o.msg = msg; return o; }
    }
    if (r.v == ACCEPT) o.nontrivial = r.tree.has_nested_empty() || r.tree.depth() >= 3 || in.find_first_of("ABCDEF") != std::string::npos;
    if (r.v == REJECT) o.nontrivial = r.after_valid_token;
    return o;
}

} // namespace c20
