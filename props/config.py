"""Per-property configuration of the driver: targets (harness binaries), tiers, evidence texts."""

LIB_SOURCES = [
    "src/allocator.c", "src/crc-16-arc.c", "src/endpoints/buffer.c", "src/endpoints/continuable-sink.c",
    "src/endpoints/core.c", "src/endpoints/instrumentable.c", "src/endpoints/posix.c", "src/endpoints/trivial.c",
    "src/length-prefix.c", "src/hexdump.c", "src/byte-buffer.c", "src/persistent-storage.c", "src/registers/core.c",
    "src/registers/utilities.c", "src/register-protocol.c", "src/rfc1055.c", "src/ring-buffer-iter.c",
    "src/variable-length-integer.c", "src/octet-ring.c", "src/compat/strlcat.c", "src/compat/strlcpy.c",
]
SX_SOURCES = ["src/sx.c"]

COMMON_ASSUME = [
    "library compiled from /repo's working tree by clang 14 with -O1 -fsanitize=address,undefined, -DNDEBUG and the repository's own definitions (little-endian host, LP64, IEEE-754)",
    "the reference model in /verif/model and the oracle in /verif/props are correct readings of the property text",
    "absence of a violation is only established for the cases counted here, not for the whole quantifier",
]

RC = ["-lrapidcheck"]


def enum(name, src, qs=1, ts=16, **kw):
    d = dict(name=name, sources=src, quick=dict(shards=qs), thorough=dict(shards=ts))
    d.update(kw)
    return d


def vg(src, qs=2, ts=8, name="vg", **kw):
    """the same harness, unsanitized, under valgrind (memcheck, --partial-loads-ok=no) for a wall-clock budget: byte-exact detection of
    accesses outside heap blocks that does not depend on what the code under test knows about sanitizers"""
    d = dict(name=name, sources=src, lib="plain", valgrind=True, quick=dict(shards=qs), thorough=dict(shards=ts))
    d.update(kw)
    return d


def dbg(src, qs=4, ts=8, name="assert", **kw):
    """the same harness against a library compiled without -DNDEBUG: assertions are active, as in the project's default (debug) build"""
    d = dict(name=name, sources=src, lib="assert", quick=dict(shards=qs), thorough=dict(shards=ts))
    d.update(kw)
    return d


def rc(name, src, qcases, tcases, qs=4, ts=16, max_size=100, **kw):
    d = dict(name=name, sources=src, rapidcheck=True, link=RC,
             quick=dict(shards=qs, cases=qcases, max_size=max_size),
             thorough=dict(shards=ts, cases=tcases, max_size=max_size))
    d.update(kw)
    return d


PROPS = {
    "C18": dict(
        level="exploration",
        exhaustive_possible=False,
        rule="cases are operation histories on a byte buffer checked step by step against a list model; non-trivial = a history that "
             "rewinds with 0<offset<used, fills the buffer exactly, or contains a refused add/consume; distinct by the hash of the op sequence + initial state",
        assumptions=COMMON_ASSUME,
        targets=[
            enum("enum", ["props/C18_enum.cpp"], qs=8, ts=16),
            vg(["props/C18_enum.cpp"]), dbg(["props/C18_enum.cpp"], cxxflags=["-DVP_LIGHT"]), enum("freestanding", ["props/C18_enum.cpp"], qs=4, ts=8, lib="freestanding", cxxflags=["-DVP_LIGHT"]),
            rc("rc", ["props/C18_rc.cpp"], 400, 6000, qs=4, ts=16),
        ],
    ),
    "C19": dict(
        level="exploration",
        exhaustive_possible=False,
        rule="cases are transitions of the pair (ring-buffer implementation state, bounded-queue model) and random op histories; non-trivial = pre-state physically "
             "wrapped or full, an evicting or dropped put, capacity 1, or a history with wrap-around/eviction/clear-and-reuse; distinct by state+op hash / history hash",
        assumptions=COMMON_ASSUME,
        targets=[
            enum("enum", ["props/C19_enum.cpp", "shims/rings.c"], qs=12, ts=16),
            vg(["props/C19_enum.cpp", "shims/rings.c"]), dbg(["props/C19_enum.cpp", "shims/rings.c"]),
            rc("rc", ["props/C19_rc.cpp", "shims/rings.c"], 300, 6000, qs=4, ts=16),
        ],
    ),
    "C16": dict(
        level="exploration",
        exhaustive_possible=True,
        rule="cases are (starting value, octet buffer[, split position]) triples compared with a bit-serial CRC-16/ARC reference; non-trivial = state and octet both "
             "non-zero (update step), a split strictly inside the buffer, or a word buffer; distinct by value",
        assumptions=COMMON_ASSUME,
        targets=[
            enum("enum", ["props/C16_enum.cpp", "shims/crc_callers.c"], qs=8, ts=16),
            vg(["props/C16_enum.cpp", "shims/crc_callers.c"]), dbg(["props/C16_enum.cpp", "shims/crc_callers.c"]),
            enum("fast", ["props/C16_enum.cpp", "shims/crc_callers.c"], qs=0, ts=16, lib="fast", cxxflags=["-DVP_FAST", "-O2"]),
        ],
    ),
    "C14": dict(
        level="exploration",
        exhaustive_possible=True,
        rule="cases are (kind, value) pairs through every encoder/decoder and (kind, octet string) pairs through the buffer and the source decoder, judged by a LEB128 "
             "reference; non-trivial = a value needing >= 2 octets, or a string that is truncated, over-long or non-canonical; distinct by value/string",
        assumptions=COMMON_ASSUME + ["buffers are presented with used == size, so 'end of the buffer' is unambiguous"],
        targets=[
            enum("enum", ["props/C14_enum.cpp", "shims/pp_probes.c", "shims/varint_static.c"], qs=12, ts=16),
            vg(["props/C14_enum.cpp", "shims/pp_probes.c", "shims/varint_static.c"]), dbg(["props/C14_enum.cpp", "shims/pp_probes.c", "shims/varint_static.c"]),
            enum("fast", ["props/C14_enum.cpp", "shims/pp_probes.c", "shims/varint_static.c"], qs=0, ts=16, lib="fast", cxxflags=["-DVP_FAST", "-O2"]),
        ],
    ),
    "C15": dict(
        level="exploration",
        exhaustive_possible=True,
        rule="cases are (accessor, alignment offset, value) triples judged by octet arithmetic (set: stored octets, neighbours, returned pointer; ref: value from the expected image), "
             "plus swap and range-predicate inputs; non-trivial = a value whose octets are pairwise distinct or that has the top bit of a middle octet or the width's sign bit set; distinct by (value, accessor)",
        assumptions=COMMON_ASSUME + ["native order is little-endian on this host; the big-endian-host branches are not exercised"],
        targets=[
            enum("enum", ["props/C15_enum.cpp", "shims/bf_table.c"], qs=8, ts=16, cflags=["-DCXX_ALLOW_TYPE_PUNNING"]),
            vg(["props/C15_enum.cpp", "shims/bf_table.c"]),
            enum("noswap", ["props/C15_enum.cpp", "shims/bf_table.c"], qs=4, ts=16, noswap=True, cxxflags=["-DVP_LIGHT"]),
            enum("O0", ["props/C15_enum.cpp", "shims/bf_table.c"], qs=4, ts=16, cflags=["-O0"], cxxflags=["-DVP_LIGHT"]),
            enum("uchar", ["props/C15_enum.cpp", "shims/bf_table.c"], qs=4, ts=16, cflags=["-funsigned-char"], cxxflags=["-DVP_LIGHT"]),
            enum("Os", ["props/C15_enum.cpp", "shims/bf_table.c"], qs=4, ts=16, cflags=["-Os"], cxxflags=["-DVP_LIGHT"]),    # size-optimised builds define __OPTIMIZE_SIZE__ (what firmware is usually built with)
            enum("O3", ["props/C15_enum.cpp", "shims/bf_table.c"], qs=4, ts=16, cflags=["-O3"], cxxflags=["-DVP_LIGHT"]),   # the ABI of most embedded targets: plain char is unsigned   # accessors compiled without optimisation: locals live in (poisoned) stack slots
            enum("platform", ["props/C15_enum.cpp", "shims/bf_table_platform.c"], qs=4, ts=16, cxxflags=["-DVP_LIGHT"]),   # the C callers' translation unit has seen Zephyr/Linux-style BIT(), BIT_MASK(), MIN()... before the ufw headers
            enum("embedded", ["props/C15_enum.cpp", "shims/bf_table.c"], qs=2, ts=8, lib="embedded", noswap=True, cxxflags=["-DVP_LIGHT"]),
            enum("gcc", ["props/C15_enum.cpp", "shims/bf_table.c"], qs=2, ts=8, lib="gcc", cxxflags=["-DVP_LIGHT"]),
            enum("fast", ["props/C15_enum.cpp", "shims/bf_table.c"], qs=0, ts=16, lib="fast", cxxflags=["-DVP_FAST", "-O2"], cflags=["-O2"]),
            enum("alias", ["props/C15_alias_enum.cpp", "shims/bf_alias.c", "shims/bf_const.c"], qs=2, ts=4, lib="fast", cxxflags=["-O2"], cflags=["-O2", "-fstrict-aliasing"]),
            enum("alias-gcc", ["props/C15_alias_enum.cpp", "shims/bf_alias.c", "shims/bf_const.c"], qs=2, ts=4, lib="gcc", cxxflags=["-O2"], cflags=["-O2", "-fstrict-aliasing"]),   # the same probes compiled by gcc (its type-based alias analysis differs from clang's)   # typed stores by the caller, optimised build without sanitizers
        ],
    ),
    "C12": dict(
        level="exploration",
        exhaustive_possible=False,
        rule="cases are (role, mode, endpoint kinds, octet string) tuples: payload round trip/structure/bound/concatenation, raw decoder input with a per-call reference at frame "
             "boundaries, garbage prefix + delimiter + 3 frames, error injection at every position; non-trivial = payload containing END or ESC, or a garbage prefix that leaves "
             "the decoder in a non-initial state (ends in ESC, invalid escape, no start octet); distinct by string",
        assumptions=COMMON_ASSUME + ["resynchronisation oracle: delivered frames are attributed by the source offset at which the decode call ends (DESIGN section 3)"],
        targets=[enum("enum", ["props/C12_enum.cpp", "shims/pp_probes.c"], qs=12, ts=16), vg(["props/C12_enum.cpp", "shims/pp_probes.c"]), dbg(["props/C12_enum.cpp", "shims/pp_probes.c"], cxxflags=["-DVP_LIGHT"])],
    ),
    "C17": dict(
        level="exploration",
        exhaustive_possible=False,
        rule="cases are (API, driver style, N, driver script) tuples on scripted octet/chunk drivers over a model stream, and plumbing runs (API, stream length, count, scripts, "
             "aux region); non-trivial = a script with a partial transfer or interruption before completion, or mixed octet/chunk endpoints; distinct by the serialised case",
        assumptions=COMMON_ASSUME + ["drivers never transfer more than asked; hard errors are sticky; transient 0/EINTR/EAGAIN results are only generated for the chunk API "
                                     "(the per-octet plumbing documents no retry); aux buffers designate the region [offset, used)"],
        targets=[enum("enum", ["props/C17_enum.cpp"], qs=12, ts=16), enum("lib", ["props/C17_lib_enum.cpp"], qs=8, ts=16), vg(["props/C17_enum.cpp"]), vg(["props/C17_lib_enum.cpp"], name="vg-lib"), dbg(["props/C17_enum.cpp"]), dbg(["props/C17_lib_enum.cpp"], name="assert-lib")],
    ),
    "C13": dict(
        level="exploration",
        exhaustive_possible=False,
        rule="cases are (entry point, prefix kind, length / buffer state / chunk list) tuples for the encoders and (decoder, kind, frame lengths, fragmentation, capacity, previous content) "
             "for the decoders, judged by reference prefix encoders and the designated octets; non-trivial = a buffer with offset > 0 and free space, a chunk list with an empty chunk, "
             "a fragmentation that splits the prefix, a pre-filled destination, or a length >= 128 / over the maximum; distinct by the serialised case",
        assumptions=COMMON_ASSUME + ["payload lengths >= 1 (the property's range); zero-length designations are counted as don't-care"],
        targets=[enum("enum", ["props/C13_enum.cpp"], qs=12, ts=16), vg(["props/C13_enum.cpp"]), dbg(["props/C13_enum.cpp"])],
    ),
    "C10": dict(
        level="exploration",
        exhaustive_possible=False,
        rule="cases are configurations (data size, placement, checksum algorithm, aux-buffer size, set-up order) each run through a battery: full store, every (offset,length) partial "
             "store/fetch incl. refused and overflow pairs, every single-octet alteration, reset; oracle = model image + reference checksum over the whole image + access log; "
             "non-trivial = aux buffer smaller than the data or non-zero placement; distinct by configuration",
        assumptions=COMMON_ASSUME + ["the medium callbacks behave (full transfers) in C10; faults are C11's subject"],
        targets=[enum("enum", ["props/C10_enum.cpp"], qs=12, ts=16), vg(["props/C10_enum.cpp"]), dbg(["props/C10_enum.cpp"])],
    ),
    "C11": dict(
        level="fault_enumeration",
        exhaustive_possible=True,
        rule="cases are (configuration, operation, crash point) and (configuration, operation, medium-call index, fault kind) tuples; crash point = number of octets the medium accepts "
             "before the cut (all whole-write prefixes and all torn positions); non-trivial = a crash point strictly inside the operation or a fault at a call index other than the first; "
             "distinct by the serialised case",
        assumptions=COMMON_ASSUME + ["a torn write leaves a prefix of the write on the medium (octet granularity); one fault per operation"],
        targets=[enum("enum", ["props/C11_enum.cpp"], qs=12, ts=16), vg(["props/C11_enum.cpp"]), dbg(["props/C11_enum.cpp"])],
    ),
    "C20": dict(
        level="exploration",
        exhaustive_possible=False,
        rule="cases are input strings (renderings of generated trees, enumerated short strings, fuzzer inputs), each presented NUL-terminated and length-delimited on an exact-size block, "
             "judged by an independent reference reader (accept with tree+position / reject / don't-care) plus an allocation ledger; non-trivial = a tree with a nested empty list, an "
             "upper-case hex digit or depth >= 3, or a string the reference rejects after at least one valid token; distinct by input",
        assumptions=COMMON_ASSUME + ["don't-care inputs (first non-blank character ')', blank-only input, integers of more than 19 decimal / 16 hex digits, NUL or octets >= 0x80, '#X' prefix) "
                                     "are only checked for memory safety, termination and leaks"],
        targets=[
            enum("enum", ["props/C20_enum.cpp", "shims/c_callers.c"], qs=12, ts=16, extra_objs=["sx_ledger.o"]),
            vg(["props/C20_enum.cpp", "shims/c_callers.c"], extra_objs=["sx_ledger.o"]), dbg(["props/C20_enum.cpp", "shims/c_callers.c"], extra_objs=["sx_ledger.o"]),
            rc("rc", ["props/C20_rc.cpp", "shims/c_callers.c"], 1500, 30000, qs=4, ts=16, max_size=200, extra_objs=["sx_ledger.o"]),
            dict(name="fuzz", sources=["props/C20_fuzz.cpp", "shims/c_callers.c"], fuzz=True, lib="fuzz", corpus="C20", dict="corpus/C20.dict", max_len=128, fuzz_args=["-only_ascii=1"], extra_objs=["sx_ledger.o"],
                 quick=dict(shards=4, runs=90000), thorough=dict(shards=16, runs=4000000, max_total_time=240)),
        ],
    ),
    "C01": dict(
        level="exploration",
        exhaustive_possible=False,
        rule="cases are (table, operation) pairs: typed set / unchecked set / get on generated valid tables, judged by a flat reference model (accept/refuse prediction, reference "
             "serialisation in the table's byte order, bit-identical read-back, storage unchanged on refusal); non-trivial = a refused set, a set exactly at a constraint bound, "
             "a big-endian or callback-backed table, or a one-past-the-end handle; distinct by (table, handle, value, operation)",
        assumptions=COMMON_ASSUME + ["areas always have a read callback; the unchecked variant only receives correctly typed values (the property's domain)"],
        targets=[enum("enum", ["props/C01_enum.cpp"], qs=12, ts=16), vg(["props/C01_enum.cpp"]), dbg(["props/C01_enum.cpp"]), enum("noswap", ["props/C01_enum.cpp"], qs=4, ts=8, lib="noswap", noswap=True)],
    ),
    "C02": dict(
        level="exploration",
        exhaustive_possible=False,
        rule="cases are (table, storage content, touched marks, block write) tuples; for each generated table every (address, length) of a window covering all areas, holes and edges x 6 "
             "word patterns, applied as an evolving history; non-trivial = a window that partially overlaps a register while carrying a bound+-1 / non-finite pattern, or that spans "
             "two areas or a hole with a non-identity pattern; distinct by the serialised case",
        assumptions=COMMON_ASSUME + ["when several failure classes are present any of them may be reported, but with that class' first address inside the request"],
        targets=[enum("enum", ["props/C02_enum.cpp"], qs=12, ts=16), vg(["props/C02_enum.cpp"]), dbg(["props/C02_enum.cpp"])],
    ),
    "C03": dict(
        level="exploration",
        exhaustive_possible=False,
        rule="cases are (table, content, query) tuples: every (address, length) window of each generated table as block read and as iteration range with every stop script; non-trivial = "
             "a read that starts mid-area in a write-only area or crosses an area edge, or an iteration whose start lies in a gap/hole/empty area or strictly inside a multi-word register; "
             "distinct by (table, window)",
        assumptions=COMMON_ASSUME + ["address windows never wrap around 2^32"],
        targets=[enum("enum", ["props/C03_enum.cpp"], qs=12, ts=16), vg(["props/C03_enum.cpp"]), dbg(["props/C03_enum.cpp"])],
    ),
    "C04": dict(
        level="exploration",
        exhaustive_possible=False,
        rule="cases are table descriptions (valid, valid-perturbed-by-one-step, raw grid); oracle = the model's set of violated rules with indices (accept iff empty; otherwise the reported "
             "rule must be violated and carry the first index of that rule), post-conditions after success, UNINITIALISED after failure; non-trivial = a one-step perturbation that yields "
             "at most one violation, or a grid description with exactly one violation; distinct by description",
        assumptions=COMMON_ASSUME + ["with several violated rules any of them may be reported (with its own first index)"],
        targets=[enum("enum", ["props/C04_enum.cpp"], qs=12, ts=16), vg(["props/C04_enum.cpp"]), dbg(["props/C04_enum.cpp"])],
    ),
    "C05": dict(
        level="exploration",
        exhaustive_possible=False,
        rule="cases are operation histories (up to 400 steps) on generated tables, executed step by step against the flat model; non-trivial = a history that contains a refused operation "
             "after at least one accepted block write, or a corrupt..sanitise pair that resets at least one register and keeps at least one; distinct by the serialised history",
        assumptions=COMMON_ASSUME + ["all areas of the generated tables load defaults (so the invariant holds initially); tables with always-fail registers get no sanitise/corrupt steps (the property's restriction)"],
        targets=[rc("rc", ["props/C05_rc.cpp"], 600, 20000, qs=8, ts=16, max_size=100), rc("rc-assert", ["props/C05_rc.cpp"], 300, 6000, qs=4, ts=8, max_size=100, lib="assert")],
    ),
    "C08": dict(
        level="exploration",
        exhaustive_possible=False,
        rule="cases are (emit entry point, transport, memory width, request kind, sequence, address, size/value, payload) tuples; oracle = octets of a reference encoder written from "
             "doc/regp.txt + the library's own receiver reports identical fields; non-trivial = a frame with payload (rich in SLIP control octets) or a non-zero response code, or a length "
             "across a varint boundary; distinct by the serialised case",
        assumptions=COMMON_ASSUME + ["the reference encoder follows doc/regp.txt; where the document is silent (block-size field of payload-less responses) it follows the library's emitter"],
        targets=[enum("enum", ["props/C08_enum.cpp", "shims/pp_probes.c"], qs=8, ts=16), vg(["props/C08_enum.cpp", "shims/pp_probes.c"]), dbg(["props/C08_enum.cpp", "shims/pp_probes.c"]), enum("noswap", ["props/C08_enum.cpp", "shims/pp_probes.c"], qs=4, ts=8, lib="noswap", noswap=True)],
    ),
    "C06": dict(
        level="exploration",
        exhaustive_possible=False,
        rule="cases are sessions (sequences of 1..8 valid frames on one instance) judged per frame by the recording back-end (number of accesses, arguments, write payload), a reference "
             "decoder on the reply octets and the allocation ledger; non-trivial = a request with block size >= 2, a non-ACK back-end verdict or a word-size mismatch; distinct by frame "
             "octets x verdict x configuration",
        assumptions=COMMON_ASSUME + ["block sizes stay within the receive block's true capacity (beyond is C09's subject); return codes of regp_process are not asserted"],
        targets=[rc("rc", ["props/C06_rc.cpp"], 2500, 100000, qs=8, ts=16, max_size=100), rc("rc-assert", ["props/C06_rc.cpp"], 1200, 30000, qs=4, ts=8, max_size=100, lib="assert")],
    ),
    "C07": dict(
        level="exploration",
        exhaustive_possible=False,
        rule="cases are de-framed octet strings (enumerated corruptions of a reference-encoded corpus, option-bit/checksum/length combinations, random strings) delivered through the real "
             "transport framing; oracle = the reference decoder's verdict vs. the receiver's classification, empty back-end log, no ACK, prescribed meta / error reply; non-trivial = an "
             "input whose version/type/reserved bits are valid so that only a checksum or the size rule can reject it; distinct by octet string",
        assumptions=COMMON_ASSUME + ["a frame that declares a payload checksum but carries no payload, and a payload-less write response with non-zero block size, are don't-care (document silent)"],
        targets=[
            enum("enum", ["props/C07_enum.cpp"], qs=12, ts=16),
            vg(["props/C07_enum.cpp"]), dbg(["props/C07_enum.cpp"], cxxflags=["-DVP_LIGHT"]),
            dict(name="fuzz", sources=["props/C09_fuzz.cpp"], fuzz=True, lib="fuzz", corpus="C09", max_len=600,
                 quick=dict(shards=2, runs=40000), thorough=dict(shards=8, runs=2000000, max_total_time=240)),
        ],
    ),
    "C09": dict(
        level="exploration",
        exhaustive_possible=False,
        rule="cases are (transport, memory width, block size, allocation-failure pattern, octet stream) tuples run through recv/process/free until the stream is exhausted; oracle = a "
             "reference stream walker (SLIP / varint prefix) with per-frame expectations, the allocation ledger, the recording back-end, ASan/UBSan and an endpoint-call budget; "
             "non-trivial = a stream that reaches the back-end, triggers a resource reply (RX/TX overflow, busy) or a channel error; distinct by the serialised case",
        assumptions=COMMON_ASSUME + ["blocks smaller than a full header (capacity < 16 octets) cannot produce the receive-overflow response: only 'no access' and the error id are asserted there; "
                                     "replies to over-long or unallocatable frames that are not well-formed requests are don't-care"],
        targets=[
            enum("enum", ["props/C09_enum.cpp"], qs=12, ts=16),
            vg(["props/C09_enum.cpp"]), dbg(["props/C09_enum.cpp"]),
            # the same cases with the library's own heap allocator (ufw_malloc/ufw_mfree, what rp_default_allocator is made of) instead of the harness's
            enum("stdheap", ["props/C09_enum.cpp"], qs=4, ts=8, cxxflags=["-DVP_STDHEAP"], extra_objs=["allocator_ledger.o"]),
            dict(name="fuzz", sources=["props/C09_fuzz.cpp"], fuzz=True, lib="fuzz", corpus="C09", max_len=1400,
                 quick=dict(shards=4, runs=60000), thorough=dict(shards=16, runs=3000000, max_total_time=300)),
        ],
    ),
}

# Every property is also checked against the library compiled the other ways the build offers: derived from each property's `assert` target(s)
# (same sources, same light flags), unless the property already has a target for that library variant.
#   embedded: -funsigned-char -fshort-enums -ffreestanding -std=c99, UFW_USE_BUILTIN_SWAP off, both register-table layout options on
#             (a bare-metal ARM EABI configuration, all at once);   O2: -O2, no sanitizer;   gcc: library and C callers compiled by gcc -O2
#             -funsigned-bitfields (library also -fsingle-precision-constant);   unity: the library as CMake's unity build compiles it
def _derive_variants():
    import copy
    for pid, P in PROPS.items():
        have = {t.get("lib", "asan") for t in P["targets"]}
        names = {t["name"] for t in P["targets"]}
        templates = [t for t in P["targets"] if t.get("lib") == "assert"]
        for variant, lib in (("embedded", "embedded"), ("O2", "fast"), ("gcc", "gcc"), ("unity", "unity"), ("cfi", "cfi"), ("altconf", "altconf")):
            if lib in have or variant in names:
                continue
            for t in templates:
                d = copy.deepcopy(t)
                d["name"] = t["name"].replace("assert", variant)
                d["lib"] = lib
                if variant == "embedded":
                    d["noswap"] = True
                d["quick"] = dict(d["quick"], shards=2, of=12)       # a sixth of the work: shard 0 carries the fixed phases
                d["thorough"] = dict(d["thorough"], shards=4, of=16)
                for tier in ("quick", "thorough"):
                    if "cases" in d[tier]:
                        d[tier]["cases"] = max(100, d[tier]["cases"] // 2)
                P["targets"].append(d)


_derive_variants()

# ambient state of the calling process: the floating-point environment (register values and constraints, float codecs) and the locale (s-expressions)
def _ambient():
    for pid in ("C01", "C02", "C03", "C04", "C05", "C15"):
        P = PROPS[pid]
        main = P["targets"][0]
        byname = {t["name"]: t for t in P["targets"]}
        cases = dict(cases=max(100, main["quick"].get("cases", 0) // 2)) if main.get("rapidcheck") else {}
        def amb(name, of, env):
            d = dict(name=name, binary_of=of["name"], sources=of["sources"], lib=of.get("lib", "asan"), env=env,
                     quick=dict(of["quick"], shards=1, of=12, **cases), thorough=dict(of["thorough"], shards=2, of=16))
            for k in ("rapidcheck", "link", "valgrind"):
                if k in of:
                    d[k] = of[k]
            P["targets"].append(d)
        amb("fp-ftz-up", main, {"VP_FPENV": "ftz up"})
        g = byname.get("gcc") or byname.get("rc-gcc")
        if g:
            amb("gcc-fp-ftz-down", g, {"VP_FPENV": "ftz down"})
    P = PROPS["C20"]
    main = P["targets"][0]
    P["targets"].append(dict(name="locale-tr", binary_of=main["name"], sources=main["sources"], lib="asan", env={"VP_LOCALE": "tr_TR.ISO-8859-9"},
                             quick=dict(shards=2, of=12), thorough=dict(shards=4, of=16)))


    P["targets"].append(dict(name="stack-unlimited", binary_of=main["name"], sources=main["sources"], lib="asan", env={"VP_RLIMIT": "stack-unlimited"},
                             quick=dict(shards=1, of=12), thorough=dict(shards=2, of=16)))


_ambient()

# ... and once with the whole run happening before main() is entered (VP_MAIN in support/vp.hpp): the main enum target's binary, one shard
for _pid, _P in PROPS.items():
    _main = _P["targets"][0]
    if not _main.get("rapidcheck") and not _main.get("fuzz"):
        _P["targets"].append(dict(name="premain", binary_of=_main["name"], sources=_main["sources"], lib=_main.get("lib", "asan"), env={"VP_PREMAIN": "1"},
                                  quick=dict(shards=1, of=12), thorough=dict(shards=2, of=16)))

NOTE_COMMON = ("trusted: clang/ASan/UBSan, the harness and its reference model; the search is bounded (see evidence: tier bounds and counts); "
               "host-specific (little-endian, LP64)")
MANIFEST_TEXT = {
    "C18": dict(
        engine="enum + rapidcheck",
        technique="bounded-exhaustive operation-sequence enumeration + rapidcheck stateful histories against a list model (ASan/UBSan on exact-size blocks)",
        level_text="Every operation sequence up to depth 4 (thorough: 5) from every valid initial state of buffers of size 1..4 (5) is executed on the "
                   "real implementation and compared field by field and octet by octet with a list model after each step; long random histories on "
                   "buffers up to 64 octets extend the reach. Exploration, not proof: larger buffers and longer histories are sampled.",
        level_note=NOTE_COMMON,
    ),
    "C19": dict(
        engine="enum + rapidcheck",
        technique="explicit-state exploration of (implementation, queue model) pairs to closure + rapidcheck stateful histories",
        level_text="All reachable (head, tail, override flag, slot contents, model queue) pairs for capacities 1..4 (thorough 1..6) over a two-value alphabet "
                   "are explored to closure for three element types, checking size/empty/full, get and both iterators after every transition; random histories "
                   "reach capacities up to 64. The closure is exhaustive for the stated alphabet and capacities only.",
        level_note=NOTE_COMMON,
    ),
    "C16": dict(
        engine="enum",
        technique="exhaustive enumeration of the CRC update step (2^24 pairs; thorough: all 1- and 2-octet buffers from every state) + random buffers at every split, against a bit-serial reference",
        level_text="The update step is checked for every (state, octet) pair, which together with the concatenation law (checked at every split of random buffers) "
                   "determines the function on all inputs; the word variant is compared with the octet variant on the words' memory image. The step space is covered "
                   "exhaustively, buffers by sampling.",
        level_note=NOTE_COMMON,
    ),
    "C14": dict(
        engine="enum",
        technique="bounded-exhaustive enumeration (all strings <= 8/11 over a 6-octet alphabet; thorough: all 2^32 32-bit values) + boundary/random 64-bit values against a LEB128 reference, ASan on exact-size blocks",
        level_text="Every encoder and both decoders of all four kinds are compared with an independent LEB128 reference: exhaustively for all short octet strings over "
                   "an adversarial alphabet (each placed so that the heap block ends at every truncation point) and, in the thorough tier, for all 2^32 32-bit values; "
                   "64-bit values are covered at every 7-bit boundary, single bits and by random sampling.",
        level_note=NOTE_COMMON,
    ),
    "C15": dict(
        engine="enum",
        technique="exhaustive enumeration for 16/24-bit (thorough: 32-bit) values, lane/bit/boundary/random values for wider widths, against an octet-arithmetic reference; both swap configurations",
        level_text="All 126 accessors, the 7 swaps and the 8 range predicates are tabulated behind uniform function pointers (compiled with and without UFW_USE_BUILTIN_SWAP) and compared "
                   "with octet arithmetic: stored octets, untouched neighbours (canary prefix + ASan-exact block end), returned pointer, loaded value incl. sign extension and float bit identity. "
                   "Exhaustive for widths 16/24 (and 32 in the thorough tier); wider widths by lanes x octet values, single bits, edges and random values.",
        level_note=NOTE_COMMON,
    ),
    "C12": dict(
        engine="enum",
        technique="bounded-exhaustive strings over the SLIP control alphabet in four roles (round trip, raw input vs per-call reference, resynchronisation, fault injection at every position) + random payloads",
        level_text="Every string up to length 8 (thorough 10) over {END, ESC, ESC_END, ESC_ESC, other} is used as payload, raw decoder input and garbage prefix in both modes with "
                   "octet- and chunk-style endpoints; the oracle is structural (delimiter only as delimiter, escapes well-formed, length bound), an inverse (round trip, concatenation), a "
                   "reference decoder at frame boundaries, and a metamorphic relation for injected source/sink errors. Random 1 KiB payloads extend the alphabet.",
        level_note=NOTE_COMMON,
    ),
    "C17": dict(
        engine="enum",
        technique="bounded-exhaustive driver-behaviour scripts (all scripts <= 5/7 over 8 behaviours x N x API x driver style) + plumbing grid + random long transfers against a stream model",
        level_text="Scripted octet- and chunk-style drivers sit on a model stream and record what was really moved, so exactness (no loss, duplication, reordering) is observed "
                   "independently of return values; every behaviour script up to length 5 (thorough 7) is enumerated for the four chunk calls, the nine plumbing calls run over a grid of "
                   "stream lengths, counts, partial/hard-error scripts and aux regions inside exact-size (ASan) blocks. A second target drives the endpoints the library itself supplies "
                   "(buffer, chunk-list, instrumentable and file-descriptor sources and sinks) through every short call sequence and the plumbing.",
        level_note=NOTE_COMMON,
    ),
    "C13": dict(
        engine="enum",
        technique="bounded-exhaustive buffer states, chunk lists, lengths and all fragmentations of short streams + random long streams, against reference prefix encoders",
        level_text="All eight encoder entry points and three decoders are driven for all six prefix kinds: every buffer state of small buffers (so that unread content and free space differ), "
                   "every n, chunk lists with empty/partly consumed chunks, lengths 1..1100 and the kinds' maxima +-1, and every fragmentation of short multi-frame streams; sinks and destinations "
                   "are recorded/exact-size so emitted and written octets are compared exactly.",
        level_note=NOTE_COMMON,
    ),
    "C10": dict(
        engine="enum",
        technique="bounded-exhaustive configuration grid x operation battery on a logging medium, against a model image and reference checksums (differential over aux-buffer sizes)",
        level_text="Every configuration of a grid (sizes 1..24, thorough 1..64; four placements; trivial sum, CRC-16/ARC and a 32-bit sum; every aux-buffer size 0..size+1; both set-up orders) "
                   "is driven through stores, every partial access incl. arithmetic-overflow pairs, every single-octet alteration and resets; the medium logs every access so that region "
                   "confinement and 'refused without touching the medium' are observed, and a call budget turns a non-terminating chunk loop into a deterministic failure.",
        level_note=NOTE_COMMON,
    ),
    "C11": dict(
        engine="enum (fault injection)",
        technique="exhaustive crash-point and single-fault enumeration per configuration on a scripted medium; oracle: reference checksum of the medium image vs validate verdict, old/new image at write granularity",
        level_text="For each configuration of a reduced grid every crash point of every store (each octet position of each medium write, so whole-write prefixes and torn writes) is executed, "
                   "then a fresh instance validates and fetches; independently a failing or short medium call is injected at every call index of every operation. The enumeration is "
                   "complete per configuration and operation; configurations are a bounded grid.",
        level_note=NOTE_COMMON,
    ),
    "C20": dict(
        engine="enum + rapidcheck + libFuzzer",
        technique="bounded-exhaustive trees and strings, rapidcheck random trees, libFuzzer byte strings, against an independent reference reader + allocation ledger + ASan on exact-size inputs",
        level_text="All trees up to 5 (thorough 6) nodes in several renderings and all strings up to length 6 (7) over a 10-character alphabet are parsed through both entry points and "
                   "compared with a reference reader written from the grammar (maximal-munch tokens); allocations of sx.c are counted by renaming malloc/calloc/free at compile time, "
                   "so a leak is an exact per-case count; larger trees come from rapidcheck, arbitrary octets from a coverage-guided fuzzer.",
        level_note=NOTE_COMMON,
    ),
    "C01": dict(
        engine="enum (generated tables, exhaustive 16-bit values)",
        technique="model-based testing on generated register tables: boundary/random values for all types, all 2^16 values for 16-bit registers, against a flat reference model with reference serialisers",
        level_text="Thousands of valid tables of a small-scope family are generated (both byte orders, memory- and callback-backed areas, every constraint kind); each register is driven with "
                   "values at type and constraint boundaries, all float classes and mistyped values through the checked and unchecked setter, and the storage is compared word for word with "
                   "a reference serialisation. 16-bit registers are swept over all values on a subset of tables; wider types are sampled.",
        level_note=NOTE_COMMON,
    ),
    "C02": dict(
        engine="enum (generated tables x exhaustive windows)",
        technique="model-based testing: exhaustive (address, length) windows x adversarial word patterns per generated table, against an overlay model; ASan on exact-size caller buffers",
        level_text="For every generated table all windows of the flat address space (including starts in holes, partial overlaps of 32/64-bit registers at either end, spans over adjacent "
                   "areas) are written with patterns built to cross constraint bounds through only the words inside the window; the model overlays the words, re-decodes every overlapped "
                   "register and predicts acceptance or the set of failure classes with their first addresses; all storage, touched marks and the caller's exact-size buffer are checked.",
        level_note=NOTE_COMMON,
    ),
    "C03": dict(
        engine="enum (generated tables x exhaustive windows)",
        technique="model-based testing: exhaustive (address, length) windows per generated table for block reads (canary + ASan-exact buffer) and for range iteration with every callback stop script",
        level_text="For every generated table each window of the flat address space is read into an exact-size buffer guarded by canary words and compared with the model (zero for write-only "
                   "areas, first unmapped address otherwise); each window is also iterated with callbacks that stop positively or negatively at every position, and the visited handles are "
                   "compared with the registers the model says overlap the range.",
        level_note=NOTE_COMMON,
    ),
    "C04": dict(
        engine="enum (stratified generation)",
        technique="stratified generation of table descriptions (valid / one-step perturbed / raw grid) against a rule-set model with indices and storage post-conditions",
        level_text="Half of the descriptions are valid tables perturbed in exactly one rule by exactly one step (off-by-one at area ends for every register size, overlap by one word, swapped "
                   "neighbours, defaults pushed across their bound), a quarter are valid tables, a quarter come from a small raw grid; the model computes the set of violated rules, and after "
                   "success the storage image, the per-area register runs and typed access are compared. Sampling, not the full cross product (which is 99.9% first-rule failures).",
        level_note=NOTE_COMMON,
    ),
    "C05": dict(
        engine="rapidcheck (stateful)",
        technique="rapidcheck stateful/model-based testing: generated operation histories with shrinking, flat reference model, invariant evaluated on the implementation's storage after every step",
        level_text="Random histories of checked operations with operands biased to constraint bounds run against the real table and the flat model in lock step; equality of all storage "
                   "and touched marks, no change on refusal, and the constraint invariant are asserted after every step, and sanitise is checked after arbitrary out-of-band corruption. "
                   "Failing histories shrink by deleting operations.",
        level_note=NOTE_COMMON,
    ),
    "C08": dict(
        engine="enum + random",
        technique="differential testing of all emit entry points against a reference encoder (doc/regp.txt) + round trip through the library's own receiver",
        level_text="Every emit entry point is exercised on both transports and memory widths over a boundary grid and random parameters (payloads rich in SLIP control octets, frame lengths "
                   "across the varint prefix boundaries); the emitted octets must equal the reference encoder's, the peer's regp_recv must accept them and report the same fields, and request "
                   "sequence numbers must increase by one modulo 2^16 over a 70000-request session.",
        level_note=NOTE_COMMON,
    ),
    "C06": dict(
        engine="rapidcheck (sessions)",
        technique="rapidcheck-generated protocol sessions against a recording memory back-end and an independent reference decoder (doc/regp.txt), with shrinking",
        level_text="Sessions of valid frames (all request kinds, word-size mismatches, responses and meta messages interleaved) run through regp_recv/regp_process/regp_free on both "
                   "transports and memory widths with every back-end verdict; the back-end records every access with a copy of the payload, the reply octets are decoded by the "
                   "reference implementation of the protocol document and compared field by field with the prescribed response.",
        level_note=NOTE_COMMON,
    ),
    "C07": dict(
        engine="enum + libFuzzer",
        technique="exhaustive error-pattern enumeration (1-/2-bit flips, bursts <= 16, truncation, extension) over a reference-encoded corpus + differential verdict check against a reference decoder on generated and fuzzed octet strings",
        level_text="Every single-bit flip, every two-bit flip and every burst up to 16 bits (thorough: all interior patterns) behind the first header word, every truncation and small "
                   "extension of each corpus frame is pushed through SLIP, regp_recv and regp_process; no such frame may reach the back-end or be acknowledged, and the receiver's "
                   "classification and reply must equal those derived from an independent decoder of doc/regp.txt. The same differential oracle runs over all option-bit/checksum/length "
                   "combinations on both transports and over random and coverage-guided octet strings.",
        level_note=NOTE_COMMON,
    ),
    "C09": dict(
        engine="libFuzzer + enum",
        technique="coverage-guided structure-aware fuzzing (libFuzzer, ASan+UBSan) with a reference stream walker as in-target oracle + enumeration of block-size / transmit-limit / allocation-failure / truncation boundaries",
        level_text="Arbitrary and mutated-valid octet streams are decoded by an independent walker (SLIP, varint prefix, frame decoder of doc/regp.txt) that predicts for every regp_recv call "
                   "whether a frame, a channel error or the end of the stream follows and what must happen (accesses, overflow/busy replies, error ids); exact-size blocks from a ledger "
                   "allocator with a scriptable failure pattern make every out-of-bounds access, leak and double release visible. Boundaries (frame length around capacity, read size around "
                   "the limit, failure at each allocation, every truncation point) are enumerated; the rest is explored by the fuzzer.",
        level_note=NOTE_COMMON,
    ),
}
