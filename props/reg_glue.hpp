// Glue between the flat register model and a live ufw RegisterTable.
#pragma once
#include "model/regspace.hpp"
#include "support/ufw.hpp"
#include <cmath>
#include <functional>
#include <ufw/register-table.h>

namespace rg {

using rm::AreaD; using rm::RegD; using rm::TableD;

// fill: what the octets of the union outside the typed member hold. Table definitions (limits, defaults) are built zero-filled like the
// REG_* initialiser macros do; operands handed to the library are built like `RegisterValue v; v.type = ...; v.value.u16 = x;` on a
// dirty stack, i.e. with garbage around the member, which the library has no business looking at.
inline RegisterValue to_value(int type, uint64_t raw, int fill = 0xa5) {
    RegisterValue v; memset(&v, fill, sizeof v);
    v.type = (RegisterType)type;
    switch (type) {
    case rm::U16: v.value.u16 = (uint16_t)raw; break;
    case rm::U32: v.value.u32 = (uint32_t)raw; break;
    case rm::U64: v.value.u64 = raw; break;
    case rm::S16: v.value.s16 = (int16_t)raw; break;
    case rm::S32: v.value.s32 = (int32_t)raw; break;
    case rm::S64: v.value.s64 = (int64_t)raw; break;
    case rm::F32: { uint32_t u = (uint32_t)raw; memcpy(&v.value.f32, &u, 4); break; }
    default: memcpy(&v.value.f64, &raw, 8); break;
    }
    return v;
}
inline RegisterValueU to_valueu(int type, uint64_t raw, int fill = 0x3c) { return to_value(type, raw, fill).value; }   // definitions too: an entry built member by member has whatever was in memory around the member
inline uint64_t from_value(const RegisterValue &v) {
    switch ((int)v.type) {
    case rm::U16: return v.value.u16;
    case rm::U32: return v.value.u32;
    case rm::U64: return v.value.u64;
    case rm::S16: return (uint64_t)(int64_t)v.value.s16;
    case rm::S32: return (uint64_t)(int64_t)v.value.s32;
    case rm::S64: return (uint64_t)v.value.s64;
    case rm::F32: { uint32_t u; memcpy(&u, &v.value.f32, 4); return u; }
    case rm::F64: { uint64_t u; memcpy(&u, &v.value.f64, 8); return u; }
    }
    return 0;
}

// callback-backed areas: storage lives in the harness; found through the area's address
struct CbStore { RegisterArea *area; uint16_t *mem; uint32_t size; unsigned long reads = 0, writes = 0; };
inline std::vector<CbStore> &cbstores() { static std::vector<CbStore> v; return v; }
inline CbStore *find_store(const RegisterArea *a) { for (auto &s : cbstores()) if (s.area == a) return &s; return nullptr; }
// one read callback call (the countdown-th from now) answers that the content is unreadable: code INVALID or RANGE, .address = the register
// address it was asked for (base + offset, as the in-tree persistent-storage glue reports it) - a driver's report, not a handle
struct OneShotRead { long countdown = -1; int code = 0; bool fired = false; uint32_t address = 0; };
inline OneShotRead &cb_read_oneshot() { static OneShotRead o; return o; }
inline long &cb_read_faults() { static long n = -1; return n; }   // >= 0: that many reads still succeed, all later ones report an I/O error
extern "C" inline RegisterAccess vp_cb_read(const RegisterArea *a, RegisterAtom *dst, RegisterOffset off, RegisterOffset n) {
    RegisterAccess rv = REG_ACCESS_RESULT_INIT;
    CbStore *s = find_store(a);
    { OneShotRead &o = cb_read_oneshot(); if (o.countdown >= 0) { if (o.countdown-- == 0) { o.fired = true; o.address = a->base + off; rv.code = (RegisterAccessCode)o.code; rv.address = o.address; return rv; } } }
    if (cb_read_faults() >= 0) { if (cb_read_faults() == 0) { rv.code = REG_ACCESS_IO_ERROR; rv.address = a->base + off; return rv; } cb_read_faults()--; }   // the device behind the area stops answering
    s->reads++;
    memcpy(dst, s->mem + off, n * sizeof(RegisterAtom));   // exact-size block: an out-of-range request is an ASan report
    return rv;
}
inline std::function<void(RegisterArea *)> &cb_write_hook() { static std::function<void(RegisterArea *)> f; return f; }
extern "C" inline RegisterAccess vp_cb_write(RegisterArea *a, const RegisterAtom *src, RegisterOffset off, RegisterOffset n) {
    RegisterAccess rv = REG_ACCESS_RESULT_INIT;
    CbStore *s = find_store(a);
    s->writes++;
    if (cb_write_hook()) cb_write_hook()(a);    // a driver that uses the table itself while it is being written to (also: while register_init loads defaults)
    memcpy(s->mem + off, src, n * sizeof(RegisterAtom));
    return rv;
}
// A validator shared by several registers can tell which one it is asked about only through the entry pointer it is handed (the signature carries
// neither table nor handle): e == register_get_entry(t, R), e - t->entry, or a pointer kept from an earlier call. So the pointer must be the
// table's own entry, not a copy: every validator call checks that e lies in the entry array of a live table and counts the calls where it does not.
inline std::vector<std::pair<const RegisterEntry *, size_t>> &entry_arrays() { static std::vector<std::pair<const RegisterEntry *, size_t>> v; return v; }
inline unsigned long &foreign_entry_calls() { static unsigned long n = 0; return n; }
inline void note_entry_pointer(const RegisterEntry *e) {
    for (auto &a : entry_arrays()) if (e >= a.first && e < a.first + a.second && ((const char *)e - (const char *)a.first) % sizeof(RegisterEntry) == 0) return;
    if (!entry_arrays().empty()) foreign_entry_calls()++;
}
template <int ID> bool vp_validator(const RegisterEntry *e, RegisterValue v) { note_entry_pointer(e); return rm::cb_pred(ID, (int)e->type, from_value(v)); }
inline validatorFunction validator(int id) { return id == 0 ? (validatorFunction)vp_validator<0> : id == 1 ? (validatorFunction)vp_validator<1> : (validatorFunction)vp_validator<2>; }

inline unsigned long &mem_hook_calls() { static unsigned long n = 0; return n; }
extern "C" inline RegisterAccess vp_mem_write_hook(RegisterArea *a, const RegisterAtom *src, RegisterOffset off, RegisterOffset n) { mem_hook_calls()++; return reg_mem_write(a, src, off, n); }
inline bool write_hooked(const AreaD &a) { return a.membacked && a.has_write && (a.base + a.size) % 3 == 0; }
// A live table: area and entry arrays (with END sentinels) and all storage in exact-size heap blocks.
struct Live {
    const TableD *d;
    RegisterTable t;
    RegisterArea *areas; RegisterEntry *entries;
    std::vector<uint16_t *> storage;   // per area (memory of ->mem or of the callback store)
    std::vector<uint16_t *> decoys;
    explicit Live(const TableD &td, uint16_t prefill = 0xbeef) : d(&td) {
        size_t na = td.areas.size(), ne = td.regs.size();
        areas = (RegisterArea *)calloc(na + 1, sizeof(RegisterArea));
        entries = (RegisterEntry *)calloc(ne + 1, sizeof(RegisterEntry));
        cbstores().clear();
        for (size_t i = 0; i < na; i++) {
            const AreaD &a = td.areas[i];
            uint16_t *mem = (uint16_t *)malloc((a.size ? a.size : 1) * sizeof(uint16_t));
            for (uint32_t k = 0; k < a.size; k++) mem[k] = (uint16_t)(prefill + k);
            storage.push_back(mem);
            RegisterArea &ra = areas[i];
            ra.flags = (uint16_t)((a.readable ? REG_AF_READABLE : 0) | (a.writeable ? REG_AF_WRITEABLE : 0) | (a.skip_defaults ? REG_AF_SKIP_DEFAULTS : 0));
            ra.base = a.base; ra.size = a.size;
            // a third kind of area: the library's reg_mem_read over a RAM mirror, but the application's own write accessor in front of it
            // (write-through / notify hook that stores with reg_mem_write): every store into such an area goes through that accessor
            if (a.membacked) { ra.read = a.has_read ? reg_mem_read : nullptr; ra.write = a.has_write ? (write_hooked(a) ? vp_mem_write_hook : reg_mem_write) : nullptr; ra.mem = mem; }
            else {
                ra.read = a.has_read ? vp_cb_read : nullptr; ra.write = a.has_write ? vp_cb_write : nullptr; ra.mem = nullptr; cbstores().push_back({&ra, mem, a.size});
                // every other callback-backed area also carries a `mem` pointer of its own (a shadow copy the application keeps, holding other
                // content): the area's words are what its callbacks say, the library has no business reading them from anywhere else
                if ((a.base ^ a.size) & 1) { uint16_t *decoy = (uint16_t *)malloc((a.size ? a.size : 1) * sizeof(uint16_t)); for (uint32_t k = 0; k < a.size; k++) decoy[k] = (uint16_t)(0x7e00 + 3 * k); decoys.push_back(decoy); ra.mem = decoy; }
            }
        }
        fill_entries(entries, td);
        memset(&t, 0, sizeof t);
        t.area = areas; t.entry = entries;
        register_make_bigendian(&t, td.big);
        entry_arrays().push_back({entries, ne});
    }
    static void fill_entries(RegisterEntry *entries, const TableD &td) {
        size_t ne = td.regs.size();
        for (size_t i = 0; i < ne; i++) {
            const RegD &r = td.regs[i];
            RegisterEntry &e = entries[i];
            e.type = (RegisterType)r.type; e.address = r.addr; e.default_value = to_valueu(r.type, r.def, 0x3c);   // different leftovers around default and limits
            e.check.type = (RegisterValidatorType)r.ckind;
            switch (r.ckind) {
            case rm::C_MIN: e.check.arg.min = to_valueu(r.type, r.lo, 0xc3); break;
            case rm::C_MAX: e.check.arg.max = to_valueu(r.type, r.hi, 0x1d); break;
            case rm::C_RANGE: e.check.arg.range.min = to_valueu(r.type, r.lo, 0xc3); e.check.arg.range.max = to_valueu(r.type, r.hi, 0x1d); break;
            case rm::C_CB: e.check.arg.cb = validator(r.cb); break;
            default: break;
            }
        }
        entries[ne].type = REG_TYPE_INVALID;
    }
    Live(const Live &) = delete;
    ~Live() { for (size_t i = 0; i < entry_arrays().size(); i++) if (entry_arrays()[i].first == entries) { entry_arrays().erase(entry_arrays().begin() + (long)i); break; }
              for (auto *m : storage) free(m); for (auto *m : decoys) free(m); free(areas); free(entries); cbstores().clear(); }
    RegisterInit init() { return register_init(&t); }
    // A boot that needs two attempts, on the same table object: the definition is wrong for the first register_init (mode 1: the last register lies
    // behind all areas; mode 2: register k's default is refused by its validator), gets corrected, and register_init runs again. Returns the result
    // of the second attempt; *first receives the first one. What was configured on the table before (byte order) is not touched in between.
    RegisterInit init_retry(int mode, size_t k, RegisterInit *first = nullptr) {
        size_t ne = d->regs.size();
        RegisterInit f; memset(&f, 0, sizeof f); f.code = REG_INIT_SUCCESS;
        if (ne && mode == 1) {
            uint64_t end = 0; for (auto &a : d->areas) end = std::max<uint64_t>(end, (uint64_t)a.base + a.size);
            if (end + 16 < 0xffffffffull) { RegisterAddress keep = entries[ne - 1].address; entries[ne - 1].address = (RegisterAddress)(end + 5); f = register_init(&t); entries[ne - 1].address = keep; }
        } else if (ne && mode == 2) {
            RegisterEntry &e = entries[k % ne]; auto keep = e.check;
            e.check.type = (RegisterValidatorType)rm::C_CB; e.check.arg.cb = (validatorFunction)+[](const RegisterEntry *, RegisterValue) { return false; };
            f = register_init(&t); e.check = keep;
        }
        if (first) *first = f;
        return register_init(&t);
    }
    // compare all storage with the model; returns -1 or the first differing address
    long diff(const rm::Space &m) const {
        for (size_t i = 0; i < d->areas.size(); i++) for (uint32_t k = 0; k < d->areas[i].size; k++) if (storage[i][k] != m.mem[i][k]) return (long)(d->areas[i].base + k);
        return -1;
    }
    void snapshot(std::vector<std::vector<uint16_t>> &out) const { out.clear(); for (size_t i = 0; i < d->areas.size(); i++) out.emplace_back(storage[i], storage[i] + d->areas[i].size); }
    long diff(const std::vector<std::vector<uint16_t>> &snap) const {
        for (size_t i = 0; i < d->areas.size(); i++) for (uint32_t k = 0; k < d->areas[i].size; k++) if (storage[i][k] != snap[i][k]) return (long)(d->areas[i].base + k);
        return -1;
    }
    void copy_from(const rm::Space &m) { for (size_t i = 0; i < d->areas.size(); i++) memcpy(storage[i], m.mem[i].data(), d->areas[i].size * 2); }
};

// A second table that is another view of the same RegisterArea array (a "service" view next to the "user" view, or the same registers in the
// other byte order): its own RegisterTable object and entry array - the registers of the first view plus up to three unconstrained u16
// registers in words the first view leaves free - over the areas, storage and callbacks of `lv`. Initialised after `lv`, so whatever
// register_init leaves in the shared area descriptions now describes this view's entry array.
struct View {
    TableD d; RegisterTable t; RegisterEntry *entries;
    explicit View(Live &lv) : d(*lv.d) {
        rm::Space m; m.init(d);
        std::vector<bool> used; unsigned added = 0;
        for (auto &a : d.areas) for (uint32_t k = 0; k < a.size && added < 3; k++) {
            uint32_t ad = a.base + k; bool free_word = true;
            for (auto &r : d.regs) if (ad >= r.addr && ad < r.end()) free_word = false;
            if (!free_word) continue;
            rm::RegD n; n.type = rm::U16; n.addr = ad; n.ckind = rm::C_NONE; n.lo = n.hi = 0; n.cb = 0; n.def = 0;
            d.regs.push_back(n); added++;
        }
        std::sort(d.regs.begin(), d.regs.end(), [](const rm::RegD &a, const rm::RegD &b) { return a.addr < b.addr; });
        entries = (RegisterEntry *)calloc(d.regs.size() + 1, sizeof(RegisterEntry));
        Live::fill_entries(entries, d);
        memset(&t, 0, sizeof t);
        t.area = lv.areas; t.entry = entries;
        register_make_bigendian(&t, d.big);
        entry_arrays().push_back({entries, d.regs.size()});
    }
    View(const View &) = delete;
    ~View() { for (size_t i = 0; i < entry_arrays().size(); i++) if (entry_arrays()[i].first == entries) { entry_arrays().erase(entry_arrays().begin() + (long)i); break; } free(entries); }
};

// ---- values with boundary bias
inline uint64_t type_min(int t) { switch (t) { case rm::S16: return (uint64_t)(int64_t)INT16_MIN; case rm::S32: return (uint64_t)(int64_t)INT32_MIN; case rm::S64: return (uint64_t)INT64_MIN; default: return 0; } }
inline uint64_t type_max(int t) { switch (t) { case rm::U16: return 0xffff; case rm::U32: return 0xffffffffull; case rm::U64: return ~0ull; case rm::S16: return INT16_MAX; case rm::S32: return INT32_MAX; default: return INT64_MAX; } }
inline uint64_t f32bits(float f) { uint32_t u; memcpy(&u, &f, 4); return u; }
inline uint64_t f64bits(double f) { uint64_t u; memcpy(&u, &f, 8); return u; }
inline uint64_t from_double(int t, double d) { return t == rm::F32 ? f32bits((float)d) : f64bits(d); }
// the next representable value above/below (finite floats, integers)
inline uint64_t step(int t, uint64_t raw, int dir) {
    if (!rm::is_float(t)) return rm::canon(t, raw + (uint64_t)(int64_t)dir);
    double d = rm::as_double(t, raw);
    if (t == rm::F32) { float f = (float)d; f = nextafterf(f, dir > 0 ? INFINITY : -INFINITY); return f32bits(f); }
    return f64bits(nextafter(d, dir > 0 ? INFINITY : -INFINITY));
}
inline std::vector<uint64_t> special_floats(int t) {
    if (t == rm::F32) return {0x00000000u, 0x80000000u, 0x00800000u, 0x7f7fffffu, 0xff7fffffu, 0x00000001u, 0x007fffffu, 0x80000001u, 0x7f800000u, 0xff800000u, 0x7fc00000u, 0x7fa00001u, 0xffc12345u, 0x7f800001u, 0x3f800000u, 0xbf800000u, 0x4b000000u};
    return {0x0ull, 0x8000000000000000ull, 0x0010000000000000ull, 0x7fefffffffffffffull, 0xffefffffffffffffull, 0x1ull, 0x000fffffffffffffull, 0x8000000000000001ull, 0x7ff0000000000000ull,
            0xfff0000000000000ull, 0x7ff8000000000000ull, 0x7ff4000000000001ull, 0xfff8000012345678ull, 0x7ff0000000000001ull, 0x3ff0000000000000ull, 0xbff0000000000000ull};
}
// a finite, acceptable value
inline uint64_t gen_finite(vp::Rng &r, int t) {
    if (!rm::is_float(t)) {
        switch (r.below(6)) {
        case 0: return type_min(t);
        case 1: return type_max(t);
        case 2: return rm::canon(t, r.below(5));
        case 3: return rm::canon(t, (uint64_t)-(int64_t)r.below(5));
        case 4: return rm::canon(t, 1ull << r.below(rm::bits(t)));
        default: return rm::canon(t, r.next());
        }
    }
    for (;;) {
        uint64_t v;
        switch (r.below(4)) {
        case 0: v = from_double(t, (double)r.range(-1000, 1000) / 8.0); break;
        case 1: v = r.pick(special_floats(t)); break;
        default: v = rm::canon(t, r.next()); break;
        }
        if (rm::float_ok(t, v)) return v;
    }
}
// any image, incl. non-finite float classes
inline uint64_t gen_any(vp::Rng &r, int t) {
    if (rm::is_float(t) && r.chance(1, 3)) return r.pick(special_floats(t));
    if (rm::is_float(t) && r.chance(1, 3)) return rm::canon(t, r.next());
    return gen_finite(r, t);
}
// values around a register's constraint
inline uint64_t gen_for(vp::Rng &r, const RegD &reg) {
    int t = reg.type;
    if (reg.ckind >= rm::C_MIN && reg.ckind <= rm::C_RANGE && r.chance(2, 3)) {
        uint64_t b = (reg.ckind == rm::C_MAX || (reg.ckind == rm::C_RANGE && r.chance(1, 2))) ? reg.hi : reg.lo;
        return step(t, b, (int)r.range(-1, 1));
    }
    if (reg.ckind == rm::C_CB && r.chance(1, 2)) return rm::canon(t, (r.next() & ~0xffull) | r.pick(std::vector<uint64_t>{0x2a, 0x2b, 0x00, 0x01, 0x08, 0x09}));
    return gen_any(r, t);
}

// ---- valid tables of the small-scope family (constructed, never filtered)
struct FamilyOpts { unsigned max_areas = 3, max_size = 12, max_regs = 5; bool allow_fail = true, allow_nowrite = true, allow_ro = true, allow_wo = true; bool only_blockwrite_types = false; bool allow_descending = true;   // ranges with descending limits in areas that never load defaults
                    unsigned huge = 0;    // 1 in `huge` tables gets an area of more than 2^16 words with registers behind offset 0x10000 (0: never)
                    unsigned many = 0; }; // 1 in `many` tables gets 32..70 registers (0: never)
inline TableD gen_table(vp::Rng &r, const FamilyOpts &o = FamilyOpts()) {
    TableD t;
    t.big = r.chance(1, 2);
    unsigned na = 1 + (unsigned)r.below(o.max_areas);
    uint32_t base = (uint32_t)r.pick(std::vector<uint64_t>{0, 1, 0x10, 0x100, 0xfffe0});
    for (unsigned i = 0; i < na; i++) {
        AreaD a;
        a.base = base; a.size = 1 + (uint32_t)r.below(o.max_size);
        a.membacked = r.chance(2, 3);
        a.has_write = o.allow_nowrite ? !r.chance(1, 8) : true;
        a.writeable = o.allow_ro ? !r.chance(1, 5) : true;
        a.readable = o.allow_wo ? !r.chance(1, 5) : true;
        a.skip_defaults = r.chance(1, 8);
        t.areas.push_back(a);
        base = a.end() + (uint32_t)r.pick(std::vector<uint64_t>{0, 0, 1, 3});   // adjacency and small gaps
    }
    unsigned budget = (unsigned)r.below(o.max_regs + 1);
    long huge_area = -1;
    if (o.many && r.below(o.many) == 0) {
        // many registers: enlarge the areas so that they fit
        budget = 32 + (unsigned)r.below(40);
        uint32_t b = t.areas.front().base;
        for (auto &a : t.areas) { a.base = b; a.size = 40 + (uint32_t)r.below(60); b = a.end() + (uint32_t)r.pick(std::vector<uint64_t>{0, 0, 1, 3}); }
    } else if (o.huge && r.below(o.huge) == 0) {
        huge_area = (long)r.below(t.areas.size());
        uint32_t b = t.areas.front().base;
        for (size_t i = 0; i < t.areas.size(); i++) { AreaD &a = t.areas[i]; a.base = b; if ((long)i == huge_area) a.size = 0x10000u + 4u + (uint32_t)r.below(40); b = a.end() + (uint32_t)r.pick(std::vector<uint64_t>{0, 0, 1, 3}); }
        if (budget < 3) budget = 3;
    }
    for (size_t ai = 0; ai < t.areas.size() && t.regs.size() < budget; ai++) {
        const AreaD &a = t.areas[ai];
        uint32_t pos = a.base;
        bool jumped = false;
        while (pos < a.end() && t.regs.size() < budget) {
            if ((long)ai == huge_area && !jumped && (pos - a.base > 6 || t.regs.size() + 2 >= budget)) { pos = a.base + 0xfffau + (uint32_t)r.below(6); jumped = true; }   // continue behind offset 0x10000
            if (r.chance(1, 4)) { pos += 1 + (uint32_t)r.below(2); continue; }   // gap between registers
            int type = (int)r.below(rm::NTYPES);
            if (o.only_blockwrite_types) type = (int)r.pick(std::vector<uint64_t>{rm::U16, rm::U32, rm::U64, rm::F32, rm::F64, rm::S16, rm::S32, rm::S64});
            if (pos + rm::words(type) > a.end()) { type = r.chance(1, 2) ? rm::U16 : rm::S16; }
            RegD reg; reg.type = type; reg.addr = pos;
            reg.ckind = (int)r.pick(std::vector<uint64_t>{rm::C_NONE, rm::C_NONE, rm::C_MIN, rm::C_MAX, rm::C_RANGE, rm::C_RANGE, rm::C_CB, (uint64_t)(o.allow_fail ? rm::C_FAIL : rm::C_NONE)});
            uint64_t x = gen_finite(r, type), y = gen_finite(r, type);
            if (rm::cmp(type, x, y) > 0) std::swap(x, y);
            reg.lo = x; reg.hi = y; reg.cb = (int)r.below(3);
            // default: finite and inside the constraint
            switch (reg.ckind) {
            case rm::C_MIN: reg.def = r.chance(1, 2) ? reg.lo : (rm::is_float(type) ? reg.lo : (rm::cmp(type, reg.lo, type_max(type)) < 0 ? step(type, reg.lo, 1) : reg.lo)); break;
            case rm::C_MAX: reg.def = reg.hi; break;
            case rm::C_RANGE: reg.def = r.chance(1, 2) ? reg.lo : reg.hi; break;
            case rm::C_CB: { uint64_t d = gen_finite(r, type); for (int k = 0; k < 64 && !(rm::cb_pred(reg.cb, type, d) && rm::float_ok(type, d)); k++) d = gen_finite(r, type); if (!(rm::cb_pred(reg.cb, type, d) && rm::float_ok(type, d))) d = 0; reg.def = d; break; }
            default: reg.def = gen_finite(r, type); break;
            }
            // a range with descending limits admits nothing; a table holding one is well-formed as long as the default is never loaded
            if (o.allow_descending && reg.ckind == rm::C_RANGE && !a.loads_defaults() && rm::cmp(type, reg.lo, reg.hi) < 0 && r.chance(1, 3)) std::swap(reg.lo, reg.hi);
            t.regs.push_back(reg);
            pos = reg.end();
        }
    }
    return t;
}

inline const char *code_name(RegisterAccessCode c) {
    switch (c) { case REG_ACCESS_SUCCESS: return "SUCCESS"; case REG_ACCESS_FAILURE: return "FAILURE"; case REG_ACCESS_UNINITIALISED: return "UNINITIALISED"; case REG_ACCESS_NOENTRY: return "NOENTRY";
    case REG_ACCESS_RANGE: return "RANGE"; case REG_ACCESS_INVALID: return "INVALID"; case REG_ACCESS_READONLY: return "READONLY"; case REG_ACCESS_IO_ERROR: return "IO_ERROR"; }
    return "?";
}


// ---- tables with an area that ends exactly at the top of the 32-bit register address space (base + size == 2^32).
// They are built and judged by hand: the flat model (and AreaD::end()) computes in 32 bits like the library does.
struct TopTable {
    RegisterArea areas[3]; RegisterEntry entries[5]; RegisterTable t;
    uint16_t low[8], top[0x100];
    uint32_t topsize;
    // area 0: [0, 8) with u16 range 10..100 (default 20) at 0, u16 max 200 (default 40) at 1, s32 range -5..5 (default 0) at 2;
    // area 1: [2^32 - topsize, 2^32), without registers unless top_register
    TopTable(uint32_t topsize_, bool top_register, bool big) : topsize(topsize_) {
        memset(areas, 0, sizeof areas); memset(entries, 0, sizeof entries); memset(&t, 0, sizeof t);
        for (auto &w : low) w = 0xbeef; for (auto &w : top) w = 0x7a7a;
        areas[0].flags = REG_AF_RW; areas[0].base = 0; areas[0].size = 8; areas[0].read = reg_mem_read; areas[0].write = reg_mem_write; areas[0].mem = low;
        areas[1].flags = REG_AF_RW; areas[1].base = (uint32_t)(0u - topsize); areas[1].size = topsize; areas[1].read = reg_mem_read; areas[1].write = reg_mem_write; areas[1].mem = top;
        size_t n = 0;
        auto reg = [&](int type, uint32_t addr, int ck, uint64_t lo, uint64_t hi, uint64_t def) {
            RegisterEntry &e = entries[n++]; e.type = (RegisterType)type; e.address = addr; e.default_value = to_valueu(type, def, 0);
            e.check.type = (RegisterValidatorType)ck;
            if (ck == rm::C_RANGE) { e.check.arg.range.min = to_valueu(type, lo, 0); e.check.arg.range.max = to_valueu(type, hi, 0); }
            if (ck == rm::C_MAX) e.check.arg.max = to_valueu(type, hi, 0);
        };
        reg(rm::U16, 0, rm::C_RANGE, 10, 100, 20);
        reg(rm::U16, 1, rm::C_MAX, 0, 200, 40);
        reg(rm::S32, 2, rm::C_RANGE, (uint64_t)-5, 5, 0);
        if (top_register) reg(rm::U16, areas[1].base, rm::C_NONE, 0, 0, 9);
        entries[n].type = REG_TYPE_INVALID;
        t.area = areas; t.entry = entries;
        register_make_bigendian(&t, big);
    }
    // do the three constrained registers of the low area still hold acceptable values?
    bool low_invariant() {
        RegisterValue v;
        if (register_get(&t, 0, &v).code != REG_ACCESS_SUCCESS || v.value.u16 < 10 || v.value.u16 > 100) return false;
        if (register_get(&t, 1, &v).code != REG_ACCESS_SUCCESS || v.value.u16 > 200) return false;
        if (register_get(&t, 2, &v).code != REG_ACCESS_SUCCESS || v.value.s32 < -5 || v.value.s32 > 5) return false;
        return true;
    }
};

} // namespace rg
