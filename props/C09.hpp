// C09 — receive/process on arbitrary octet streams: reference stream walker + per-frame oracle.
#pragma once
#include "props/regp.hpp"

namespace c09 {
using namespace rx;

struct Config { bool serial, mem16; int chunk_src; size_t block_extra; uint64_t failmask; };   // block = sizeof(RPFrame) + 1 + block_extra
// chunk_src: 0 octet source, 1 chunk source, k >= 2 chunk source lending a k-octet scratch buffer
struct Outcome { std::string key, msg; size_t frames = 0, reached_backend = 0, resource_replies = 0, channel_errors = 0, bad_frames = 0; };

inline std::string ser(const Config &c, const Bytes &stream) {
    return vp::fmt("stream %d %d %d %zu %llu %s\n", (int)c.serial, (int)c.mem16, (int)c.chunk_src, c.block_extra, (unsigned long long)c.failmask, stream.empty() ? "-" : vp::hex(stream).c_str());
}
inline bool parse(const std::string &text, Config &c, Bytes &stream) {
    auto w = vp::split(vp::lines(text).at(0));
    if (w.size() < 7 || w[0] != "stream") return false;
    c.serial = atoi(w[1].c_str()); c.mem16 = atoi(w[2].c_str()); c.chunk_src = atoi(w[3].c_str()); c.block_extra = strtoull(w[4].c_str(), 0, 10); c.failmask = strtoull(w[5].c_str(), 0, 10);
    stream = w[6] == "-" ? Bytes() : vp::unhex(w[6]);
    return true;
}

// reference transport walker: what the next regp_recv must see
enum Event { EV_FRAME, EV_CHANNEL_ILSEQ, EV_END };
struct Step { Event ev; Bytes raw; size_t newpos; };
inline Step next_step(bool serial, const Bytes &s, size_t pos) {
    Step st; st.newpos = pos;
    if (serial) {
        Bytes out; bool complete; size_t p = pos;
        bool ok = rp::unslip(s, p, out, complete);
        st.newpos = p;
        if (!ok) { st.ev = EV_CHANNEL_ILSEQ; return st; }
        if (!complete) { st.ev = EV_END; st.newpos = s.size(); return st; }
        st.ev = EV_FRAME; st.raw = out; return st;
    }
    ref::VarintResult r = ref::varint_decode(s.data() + pos, s.size() - pos, 10, 64);
    if (r.verdict == ref::VI_ILSEQ) { st.ev = EV_CHANNEL_ILSEQ; st.newpos = pos + 10; return st; }
    if (r.verdict == ref::VI_TRUNCATED) { st.ev = EV_END; st.newpos = s.size(); return st; }
    size_t p = pos + r.count;
    if (r.value > s.size() - p) { st.ev = EV_END; st.newpos = s.size(); return st; }
    st.ev = EV_FRAME; st.raw.assign(s.begin() + (long)p, s.begin() + (long)(p + r.value)); st.newpos = p + (size_t)r.value;
    return st;
}

inline Outcome walk(const Config &cfg, const Bytes &stream) {
    Outcome o;
    size_t block = frame_struct_size() + 1 + cfg.block_extra;
    size_t capacity = block - frame_struct_size();
    Session S(cfg.serial, cfg.mem16, block, cfg.chunk_src, true, stream);
    S.led.failmask = cfg.failmask;
    be().reset();
    size_t pos = 0;
    auto fail = [&](const std::string &k, const std::string &m) { o.key = k; o.msg = m + vp::fmt(" [frame %zu at stream offset %zu, block %zu]", o.frames, pos, block); return o; };
    for (size_t iter = 0; iter < stream.size() + 3; iter++) {
        Step st = next_step(cfg.serial, stream, pos);
        size_t calls0 = be().log.size(), failed0 = S.led.failed;
        RPMaybeFrame mf; memset(&mf, 0, sizeof mf);
        int rr, pr = 0;
        if (!VP_BUDGET(256 + 16 * stream.size() + 16 * block)) return fail("no-progress", "receive/process keeps calling the endpoints without completion");
        rr = regp_recv(&S.p, &mf);
        if (!(rr < 0 && mf.frame == nullptr && st.ev != EV_FRAME)) pr = regp_process(&S.p, &mf);
        vp::budget().armed = false;
        (void)pr;
        Bytes out = S.take_output();
        size_t calls = be().log.size() - calls0;
        bool alloc_failed = S.led.failed > failed0;
        int eid = mf.error.id;
        RPFrame *frame = mf.frame;
        rp::Frame got_hdr; if (frame && eid == 0) got_hdr = from_lib(frame);
        if (st.ev != EV_FRAME) {
            // channel error: the receiver returns it, hands out no frame and has released whatever it allocated
            if (frame) regp_free(&S.p, frame);
            if (rr >= 0) return fail("channel-error-not-returned", vp::fmt("stream %s but regp_recv returned %d", st.ev == EV_END ? "ends inside a frame" : "carries an illegal sequence", rr));
            if (calls) return fail("channel-error:memory-access", "memory accessed although no frame was received");
            if (S.led.outstanding()) return fail("leak-on-channel-error", vp::fmt("%zu block(s) still allocated after regp_recv returned the channel error %d", S.led.outstanding(), rr));
            if (S.led.double_free) return fail("double-free", "a block was released twice");
            o.channel_errors++;
            if (st.ev == EV_END) break;
            pos = st.newpos;
            continue;
        }
        o.frames++;
        const Bytes &raw = st.raw;
        if (S.src.pos != st.newpos) { if (frame) regp_free(&S.p, frame); return fail("stream-position", vp::fmt("receiver consumed up to %zu, the frame ends at %zu", S.src.pos, st.newpos)); }
        if (frame) regp_free(&S.p, frame);
        if (S.led.outstanding()) return fail("leak", vp::fmt("%zu block(s) outstanding after regp_free", S.led.outstanding()));
        if (S.led.double_free) return fail("double-free", "a block was released twice");
        std::vector<Bytes> rframes; std::vector<rp::Frame> replies;
        if (!rp::split_wire(cfg.serial, out, rframes)) return fail("reply-not-framed", "reply octets are not well-formed frames");
        for (auto &f : rframes) { rp::Frame d; rp::decode(f, d); replies.push_back(d); }
        rp::Frame ref; rp::Verdict v = rp::decode(raw, ref);
        bool header_ok = v == rp::V_OK || v == rp::V_BAD_SIZE || v == rp::V_BAD_PLCRC || v == rp::V_DONTCARE;
        auto is_resp = [&](int code) { return replies.size() == 1 && replies[0].is_response() && replies[0].meta == code && replies[0].seq == ref.seq && replies[0].addr == ref.addr && replies[0].type == (ref.type == rp::READ_REQ ? rp::READ_RESP : rp::WRITE_RESP); };
        pos = st.newpos;
        if (raw.empty()) {
            if (eid != EBADMSG) return fail("empty-frame-not-bad-header", vp::fmt("empty frame: error.id=%d", eid));
            if (calls) return fail("empty-frame:memory-access", "memory access for an empty frame");
            o.bad_frames++; continue;
        }
        if (alloc_failed) {
            if (frame) return fail("alloc-failed-but-frame", "allocation failed but a frame was returned");
            if (calls) return fail("alloc-failed:memory-access", "memory accessed although no block could be allocated");
            // a header fault is still a header fault when the frame could not be stored: nothing of a damaged header may be mirrored in a response
            if (v == rp::V_BAD_HDCRC && !(replies.size() == 1 && replies[0].type == rp::META && replies[0].meta == 2)) return fail("alloc-failed:bad-header-checksum-not-reported", vp::fmt("allocation failure and a header whose checksum does not match: %zu reply frames%s", replies.size(), replies.empty() ? "" : (", first: " + rp::show(replies[0])).c_str()));
            if (v == rp::V_BAD_HEADER && raw.size() >= 12 && !(replies.size() == 1 && replies[0].type == rp::META && replies[0].meta == 1)) return fail("alloc-failed:bad-header-encoding-not-reported", vp::fmt("allocation failure and a header that does not parse: %zu reply frames", replies.size()));
            if (v == rp::V_OK && ref.is_request() && !is_resp(rp::C_EBUSY)) return fail("alloc-failed:no-ebusy-reply", vp::fmt("well-formed request, allocation failure: %zu reply frames%s", replies.size(), replies.empty() ? "" : (", first: " + rp::show(replies[0])).c_str()));
            o.resource_replies++; continue;
        }
        if (raw.size() > capacity) {
            if (calls) return fail("overflow:memory-access", "a frame too large for the receive block reached the back-end");
            if (eid == 0) return fail("overflow-not-detected", vp::fmt("frame of %zu octets, capacity %zu, error.id=0", raw.size(), capacity));
            if (capacity >= 16 && v == rp::V_BAD_HDCRC && !(replies.size() == 1 && replies[0].type == rp::META && replies[0].meta == 2)) return fail("overflow:bad-header-checksum-not-reported", vp::fmt("over-long frame whose header checksum does not match: %zu reply frames%s", replies.size(), replies.empty() ? "" : (", first: " + rp::show(replies[0])).c_str()));
            if (capacity >= 16 && header_ok && ref.is_request() && !is_resp(rp::C_ERXOVERFLOW)) return fail("overflow:no-erxoverflow-reply", vp::fmt("over-long request: %zu reply frames%s", replies.size(), replies.empty() ? "" : (", first: " + rp::show(replies[0])).c_str()));
            o.resource_replies++; continue;
        }
        // the frame fits
        if (raw.size() < 12 && eid != EBADMSG) return fail("short-frame-not-bad-header", vp::fmt("frame of %zu octets: error.id=%d", raw.size(), eid));
        if (v == rp::V_DONTCARE) continue;
        if (v != rp::V_OK) {
            if (calls) return fail("invalid-frame:memory-access", std::string("frame is ") + rp::verdict_name[v] + " but memory was accessed");
            int want_eid = v == rp::V_BAD_HEADER ? EBADMSG : v == rp::V_BAD_HDCRC ? EILSEQ : v == rp::V_BAD_SIZE ? EFAULT : EPROTO;
            if (eid != want_eid) return fail(std::string("verdict:") + rp::verdict_name[v], vp::fmt("error.id=%d expected %d", eid, want_eid));
            o.bad_frames++; continue;
        }
        if (eid != 0) return fail("valid-frame-rejected", vp::fmt("error.id=%d for a valid frame (%s)", eid, rp::show(ref).c_str()));
        if (!ref.is_request()) { if (calls || !replies.empty()) return fail("non-request-processed", "a response/meta frame caused an access or a reply"); continue; }
        bool width_ok = ((ref.options & rp::WORD16) != 0) == cfg.mem16;
        if (!width_ok) { if (calls) return fail("wordsize:memory-access", "word-size mismatch but memory accessed"); if (!is_resp(rp::C_EWORDSIZE)) return fail("wordsize:reply", "expected EWORDSIZE"); continue; }
        size_t hs = raw.size() - ref.payload.size();
        size_t room = capacity - hs;
        if (ref.type == rp::READ_REQ && (uint64_t)ref.blocksize * (cfg.mem16 ? 2 : 1) > room) {
            if (calls) return fail("txoverflow:memory-access", vp::fmt("read of %u words cannot fit into %zu octets but the back-end was called", ref.blocksize, room));
            if (!is_resp(rp::C_ETXOVERFLOW)) return fail("txoverflow:no-reply", vp::fmt("read that cannot fit: %zu reply frames", replies.size()));
            Bytes want; rp::put32(want, (uint32_t)capacity);
            if (replies[0].payload != want) return fail("txoverflow:payload", "payload " + vp::hex(replies[0].payload) + " expected the buffer size " + vp::hex(want));
            o.resource_replies++; continue;
        }
        if (calls != 1) return fail(calls ? "request:accessed-more-than-once" : "request:not-executed", vp::fmt("%zu accesses for a valid request", calls));
        const Call &cl = be().log.back();
        if (cl.write != (ref.type == rp::WRITE_REQ) || cl.addr != ref.addr || cl.n != ref.blocksize) return fail("request:wrong-access-arguments", "access arguments differ from the request");
        if (cl.write && cl.data != ref.payload) return fail("request:write-payload-differs", "back-end saw other octets than the payload");
        if (!is_resp(rp::C_ACK)) return fail("request:no-ack", "request executed but not acknowledged");
        if (!cl.write && replies[0].payload != cl.data) return fail("request:ack-payload", "acknowledgement does not carry what the back-end delivered");
        o.reached_backend++;
    }
    if (S.led.outstanding() || S.led.double_free) return fail("leak-at-end", "ledger unbalanced at the end of the stream");
    if (!S.src.scratch_guard_ok()) return fail("source-scratch-overrun", "octets outside the region the source lent were written");
    return o;
}

} // namespace c09
