// C07 — corrupted frames are never executed nor acknowledged; receiver verdict == reference verdict.
#include "props/C07.hpp"
using namespace c07;

struct Case { bool serial, mem16, guaranteed; Bytes raw; std::string kind = "none"; int mode = 0; };   // mode: see c07::judge (1: block one octet too small, 2: allocation fails, 3: allocation fails on two instances, the second served from the first's source driver)
static Case g_cur;
static std::string ser_case(const Case &c) { return vp::fmt("frame %d %d %d %s %s %d\n", (int)c.serial, (int)c.mem16, (int)c.guaranteed, c.raw.empty() ? "-" : vp::hex(c.raw).c_str(), c.kind.c_str(), c.mode); }

static bool run_case(Case c, const char *cls) {
    if (c.kind == "none" || c.kind.empty()) c.kind = cls;
    g_cur = c;
    Outcome o = judge(c.serial, c.mem16, c.raw, c.guaranteed, 64, c.mode);
    if (c.mode) { vp::count(); if (!o.key.empty()) { vp::fail(o.key, o.msg, ser_case(c)); return false; } vp::cls(c.mode == 1 ? "frame-does-not-fit-the-block" : c.mode == 2 ? "allocation-fails" : "allocation-fails:second-instance-served-meanwhile"); if (o.ref == rp::V_BAD_HDCRC) vp::nontrivial(vp::fnv(c.raw.data(), c.raw.size(), 900 + c.mode)); return true; }
    vp::count();
    if (!o.key.empty()) { vp::fail(o.key, o.msg, ser_case(c)); return false; }
    if (o.collision) {
        // The enumerated corruption produced another frame that is VALID under the protocol document (its checksums match):
        // the receiver executes/acknowledges it.  The property promises this cannot happen for these error classes.
        vp::cls("corruption-yields-valid-frame:" + c.kind);
        std::string key = "collision:" + c.kind;
        if (vp::excluded(key)) { vp::stats().excluded++; return true; }
        rp::Frame f; rp::decode(c.raw, f);
        vp::fail(key, "a " + c.kind + " corruption of a corpus frame yields a frame with matching checksums, which is accepted as " + rp::show(f), ser_case(c));
        return false;
    }
    if (o.ref == rp::V_DONTCARE) { vp::stats().dontcare++; vp::cls("dont-care"); }
    else vp::cls(std::string(cls) + ":" + rp::verdict_name[o.ref]);
    // non-trivial: version/type/reserved bits still valid, so only a checksum or the size rule can catch it
    if (o.ref == rp::V_BAD_HDCRC || o.ref == rp::V_BAD_SIZE || o.ref == rp::V_BAD_PLCRC) vp::nontrivial(vp::fnv(c.raw.data(), c.raw.size(), c.serial * 2 + c.mem16));
    return true;
}

static std::vector<std::pair<rp::Frame, bool>> corpus() {   // (frame, memory width of the receiver)
    std::vector<std::pair<rp::Frame, bool>> v;
    for (int w16 = 0; w16 < 2; w16++) {
        for (uint32_t n : {0u, 1u, 2u, 3u, 8u, 31u}) {
            Bytes pl((size_t)n * (w16 ? 2 : 1));
            for (size_t i = 0; i < pl.size(); i++) pl[i] = mem_octet((uint32_t)i, 77 + n);
            v.push_back({rp::make_request(true, false, w16, (uint16_t)(0x1200 + n), 0x00010000u + n, n, {}), (bool)w16});
            v.push_back({rp::make_request(true, true, w16, (uint16_t)(0xc0db + n), 0xdcdd0000u + n, n, pl), (bool)w16});
            rp::Frame rq = rp::make_request(true, false, w16, (uint16_t)(7 + n), 0x80000000u + n, n, {});
            v.push_back({rp::make_response(true, rq, rp::C_ACK, w16, pl, 0), (bool)w16});
        }
        rp::Frame wq = rp::make_request(true, true, w16, 0x4242, 0x1000, 2, Bytes(w16 ? 4 : 2, 0x11));
        v.push_back({rp::make_response(true, wq, rp::C_ACK, w16, {}, 0), (bool)w16});
        v.push_back({rp::make_response(true, wq, rp::C_ERANGE, w16, {}, 0x1001), (bool)w16});
        v.push_back({rp::make_response(true, wq, rp::C_EBUSY, w16, {}, 0), (bool)w16});
    }
    // frames whose true checksums are the "magic" values: an all-zero payload has payload CRC 0x0000; sequence numbers chosen so that the header CRC is 0x0000 / 0xffff
    v.push_back({rp::make_request(true, true, false, 0x0101, 0x2000, 4, Bytes(4, 0x00)), false});
    for (int want : {0x0000, 0xffff}) for (uint32_t sq = 0; sq < 65536; sq++) {
        rp::Frame f = rp::make_request(true, false, true, (uint16_t)sq, 0x3000, 2, {});
        Bytes e = rp::encode(f);
        if (((e[12] << 8) | e[13]) == want) { v.push_back({f, true}); break; }
    }
    v.push_back({rp::make_meta(true, 1), false});
    v.push_back({rp::make_meta(true, 2), true});
    return v;
}

static void flip(Bytes &b, size_t bit) { b[bit / 8] ^= (uint8_t)(0x80 >> (bit % 8)); }

static void run() {
    auto &a = vp::args();
    vp::CaseScope scope([] { return ser_case(g_cur); });
    bool T = a.thorough();
    vp::stats().rule = vp::fmt("enum: corpus of %zu reference-encoded serial frames (every type x 8/16-bit x payload sizes 0,1,2,3,8,31); on each: every single-bit flip (also with a receive block one octet too small, with a failing allocation, and with a failing allocation while the source driver serves a second instance - same exhausted pool - in the middle of the frame), every two-bit flip and every burst "
                               "of length 2..16 (first and last bit set, %s interior patterns; bits numbered in UART wire order (LSB first) and also MSB first) at every bit offset behind the first header word, every truncation length, extensions by 1..4 octets; "
                               "every single-bit flip of the header of frames without (or with only one) checksum, judged by the reference reading; plus frames with every combination of the three option bits x right/wrong header CRC x right/wrong payload CRC x payload length deltas on both transports, and random "
                               "octet strings; oracle = reference decoder verdict, empty back-end log, no ACK, prescribed meta / error reply", corpus().size(), T ? "all" : "64 random");
    vp::stats().exhaustive = T;
    vp::Rng rng(a.seed * 17011 + a.shard);
    auto cp = corpus();
    uint64_t idx = 0;
    for (auto &fm : cp) {
        Bytes raw = rp::encode(fm.first);
        bool mem16 = fm.second;
        size_t nbits = raw.size() * 8;
        {   // the undamaged frame must be accepted
            if (idx++ % a.nshards == a.shard) run_case({true, mem16, false, raw}, "undamaged");
        }
        for (size_t b = 0; b < nbits; b++) { if (idx++ % a.nshards != a.shard) continue; Bytes d = raw; flip(d, b); run_case({true, mem16, true, d}, "single-bit");
            for (int mode = 1; mode <= 3; mode++) { Case c{true, mem16, true, d}; c.kind = "single-bit"; c.mode = mode; run_case(c, "single-bit"); } }
#ifdef VP_LIGHT
        if (0)   // additional build configurations: single-bit, truncation, extension and option phases only
#endif
        for (size_t b1 = 16; b1 < nbits; b1++) for (size_t b2 = b1 + 1; b2 < nbits; b2++) {
            if (idx++ % a.nshards != a.shard) continue;
            Bytes d = raw; flip(d, b1); flip(d, b2); run_case({true, mem16, true, d}, "two-bit");
        }
#ifdef VP_LIGHT
        if (0)
#endif
        for (int order = 0; order < 2; order++)   // 0: bits numbered LSB-first within each octet (the order a UART puts them on the wire); 1: MSB-first numbering
            for (size_t L = 2; L <= 16; L++) for (size_t b = 16; b + L <= nbits; b++) {
                if (idx++ % a.nshards != a.shard) continue;
                uint64_t ninterior = 1ull << (L - 2);
                size_t npat = T ? (size_t)ninterior : (size_t)std::min<uint64_t>(ninterior, 64);
                for (size_t k = 0; k < npat; k++) {
                    uint64_t interior = (T || ninterior <= 64) ? k : rng.below(ninterior);
                    Bytes d = raw;
                    auto fl = [&](size_t bit) { if (order) flip(d, bit); else d[bit / 8] ^= (uint8_t)(1u << (bit % 8)); };
                    fl(b); fl(b + L - 1);
                    for (size_t j = 0; j + 2 < L; j++) if ((interior >> j) & 1) fl(b + 1 + j);
                    Case c{true, mem16, true, d}; c.kind = order ? "burst-msb" : "burst-lsb";
                    run_case(c, "burst");
                }
            }
        for (size_t len = 0; len < raw.size(); len++) { if (idx++ % a.nshards != a.shard) continue; run_case({true, mem16, true, Bytes(raw.begin(), raw.begin() + (long)len)}, "truncated"); }
        for (size_t ext = 1; ext <= 4; ext++) for (int pat = 0; pat < 4; pat++) {
            if (idx++ % a.nshards != a.shard) continue;
            Bytes d = raw; for (size_t k = 0; k < ext; k++) d.push_back(pat == 0 ? 0x00 : pat == 1 ? 0xff : pat == 2 ? 0xc0 : rng.byte());
            run_case({true, mem16, true, d}, "extended");
        }
        if (vp::too_many_failures()) return;
    }
    // frames as the TCP transport carries them (no checksums) and with one checksum only: every single-bit flip of the header, judged by the
    // reference reading (nothing guards these frames but the size rule and the header encoding - a flipped top bit of the size field must be
    // found implausible by arithmetic alone)
    for (int w16 = 0; w16 < 2; w16++) for (int opt : {0, (int)rp::PLCRC, (int)rp::HDCRC}) for (uint32_t n : {0u, 1u, 2u, 5u}) for (int write = 0; write < 2; write++) {
        Bytes pl(write ? (size_t)n * (w16 ? 2 : 1) : 0);
        for (size_t i = 0; i < pl.size(); i++) pl[i] = mem_octet((uint32_t)i, 31 + n);
        rp::Frame f = rp::make_request(false, write, w16, (uint16_t)(0x2200 + n), 0x00020000u + n, n, pl);
        f.options = (f.options & rp::WORD16) | (pl.empty() ? (opt & ~(int)rp::PLCRC) : opt);
        Bytes raw = rp::encode(f);
        size_t hdrbits = (raw.size() - pl.size()) * 8;
        for (size_t b = 0; b < hdrbits; b++) {
            if (idx++ % a.nshards != a.shard) continue;
            Bytes d = raw; flip(d, b);
            for (int serial = 0; serial < 2; serial++) run_case({(bool)serial, (bool)w16, false, d}, "header-bit-flip-without-header-checksum");
        }
    }
    // every combination of the option bits with independently right/wrong checksums and payload lengths, both transports
    for (int serial = 0; serial < 2; serial++) for (int type : {0, 1, 2, 3, 15}) for (int opt = 0; opt < 8; opt++) for (int badh = 0; badh < 2; badh++) for (int badp = 0; badp < 2; badp++)
        for (uint32_t bs : {0u, 1u, 2u, 3u}) for (int delta = -2; delta <= 2; delta++) for (int mem16 = 0; mem16 < 2; mem16++) {
            if (idx++ % a.nshards != a.shard) continue;
            rp::Frame f; f.type = type; f.options = opt; f.meta = type == 15 ? 1 + (bs & 1) : (type == 1 || type == 3) ? (int)(bs * 3) : 0; f.seq = (uint16_t)(idx * 31); f.addr = (uint32_t)(idx * 2654435761u); f.blocksize = bs;
            long plen = (long)bs * ((opt & 1) ? 2 : 1) + delta;
            if (type == 0 || type == 15) plen = delta;
            if (plen < 0) continue;
            f.payload.resize((size_t)plen); for (auto &b : f.payload) b = rng.byte();
            rp::Damage dm; dm.bad_hdcrc = badh; dm.bad_plcrc = badp;
            run_case({(bool)serial, (bool)mem16, false, rp::encode(f, dm)}, "option-combination");
            // checksum fields holding the values a shortcut might read as "no checksum": 0x0000 and 0xffff
            if (delta == 0 && !badh && !badp) for (int which = 0; which < 2; which++) for (int val : {0x0000, 0xffff}) {
                rp::Damage dz; (which ? dz.force_plcrc : dz.force_hdcrc) = val;
                run_case({(bool)serial, (bool)mem16, false, rp::encode(f, dz)}, "checksum-field-0000-or-ffff");
            }
        }
    // frames with payloads across 2^16 words / octets (a checksum or size computed with a 16-bit count shows here)
    for (int serial = 0; serial < 2; serial++) for (int w16 = 0; w16 < 2; w16++) for (uint32_t n : {65535u, 65536u, 65537u, 65560u}) {
        if (idx++ % a.nshards != a.shard) continue;
        Bytes pl((size_t)n * (w16 ? 2 : 1));
        for (size_t i = 0; i < pl.size(); i++) pl[i] = mem_octet((uint32_t)i, 9 + n);
        rp::Frame f = rp::make_request(true, true, w16, (uint16_t)n, 0x100, n, pl);     // serial option bits (both checksums) on either transport
        Bytes raw = rp::encode(f);
        run_case({(bool)serial, (bool)w16, false, raw}, "large-frame");
        for (size_t pos : {raw.size() - 1, raw.size() - 3, (size_t)16 + 80000u % pl.size(), (size_t)16 + 1, (size_t)16 + (pl.size() & ~(size_t)0xffff) + 1}) {
            if (pos >= raw.size()) continue;
            Bytes d = raw; d[pos] ^= 0x10;
            Case c{(bool)serial, (bool)w16, true, d}; c.kind = "single-bit";
            run_case(c, "large-frame-corrupted");
        }
    }
    // random octet strings and random mutations of valid frames on both transports
    size_t nrand = (T ? 600000 : 60000) / a.nshards;
    for (size_t i = 0; i < nrand && !vp::too_many_failures(); i++) {
        Bytes raw;
        if (rng.chance(1, 2)) { raw = rp::encode(cp[rng.below(cp.size())].first); size_t nm = (size_t)rng.range(1, 4); for (size_t k = 0; k < nm && !raw.empty(); k++) { size_t p = rng.below(raw.size()); switch (rng.below(3)) { case 0: raw[p] = rng.byte(); break; case 1: raw.erase(raw.begin() + (long)p); break; default: raw.insert(raw.begin() + (long)p, rng.byte()); } } }
        else { raw.resize((size_t)rng.range(0, 40)); for (auto &b : raw) b = rng.byte(); if (raw.size() >= 2 && rng.chance(3, 4)) { raw[1] = (uint8_t)((rng.pick(std::vector<uint64_t>{0, 1, 2, 3, 15}) << 4)); raw[0] &= 0x7f; } }
        run_case({rng.chance(1, 2), rng.chance(1, 2), false, raw}, "random");
        if (vp::want_sample()) vp::sample(ser_case(g_cur));
    }
}
static bool replay(const std::string &text) {
    auto w = vp::split(vp::lines(text).at(0));
    if (w.size() < 5 || w[0] != "frame") return false;
    Case c{(bool)atoi(w[1].c_str()), (bool)atoi(w[2].c_str()), (bool)atoi(w[3].c_str()), w[4] == "-" ? Bytes() : vp::unhex(w[4])};
    if (w.size() >= 6) c.kind = w[5];
    if (w.size() >= 7) c.mode = atoi(w[6].c_str());
    vp::CaseScope scope([] { return ser_case(g_cur); });
    return run_case(c, "replay");
}
VP_MAIN(run, replay)
