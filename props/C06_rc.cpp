// C06 — a valid request is executed exactly once and answered faithfully (rapidcheck sessions).
#include "support/rc.hpp"
#include <memory>
#include "props/regp.hpp"
using namespace rx;

struct Spec { int kind; bool write, w16; uint16_t seq; uint32_t addr, n; Bytes payload; int code; uint32_t vaddr; int meta; int optx = -1; int dmg = 0; bool muted = false; };   // kind 0 request 1 response 2 meta; muted: while this frame is processed the instance's sink is the library's own sink_null (a listen-only device) - the memory access happens all the same; dmg != 0: the frame is damaged on the way (see damaged()); optx >= 0: checksum option bits to use instead of the transport's canonical ones
struct Case { bool serial, mem16, chunk_src, chunk_snk; uint32_t extra; std::vector<Spec> frames; bool nest = false; int half = 0; };   // half 1: only a write accessor is attached, the read side is the library's own regp_void_read* (a write-only memory); 2: the other way round   // nest: while a response is being handed to the sink, the sink's driver makes a second protocol instance emit an error response of its own   // extra == 0: the receive block is exactly as large as the largest frame/answer needs

static std::string ser_case(const Case &c) {
    std::string s = vp::fmt("session %d %d %d %d %u %d %d\n", (int)c.serial, (int)c.mem16, (int)c.chunk_src, (int)c.chunk_snk, c.extra, (int)c.nest, c.half);
    for (auto &f : c.frames) s += vp::fmt("frame %d %d %d %u %u %u %d %u %d %s %d %d %d\n", f.kind, (int)f.write, (int)f.w16, f.seq, f.addr, f.n, f.code, f.vaddr, f.meta, f.payload.empty() ? "-" : vp::hex(f.payload).c_str(), f.optx, f.dmg, (int)f.muted);
    return s;
}
// damage 1/2: checksum field off by a few bits; 3..6: checksum field forced to 0x0000 / 0xffff (payload, header); 7/8: payload one octet short / long
static Bytes damaged(const rp::Frame &fr, int dmg) {
    rp::Damage d;
    switch (dmg) { case 1: d.bad_hdcrc = true; break; case 2: d.bad_plcrc = true; break; case 3: d.force_plcrc = 0; break; case 4: d.force_plcrc = 0xffff; break; case 5: d.force_hdcrc = 0; break; case 6: d.force_hdcrc = 0xffff; break; default: break; }
    Bytes raw = rp::encode(fr, d);
    if (dmg == 7 && !fr.payload.empty()) raw.pop_back();
    if (dmg == 8) raw.push_back(0x00);
    return raw;
}
static size_t hdr_octets(bool serial, bool with_payload) { return 12 + (serial ? 2 + (with_payload ? 2 : 0) : 0); }

static std::string run_case(const Case &c, std::string &msg, bool classify) {
    // the receive block: large enough for every frame of the session (the region beyond is C09's subject)
    // the frames of the session, reference-encoded; the receive block is sized from what they (and the read answers) really need
    auto build = [&](const Spec &sp) {
        rp::Frame fr;
        if (sp.kind == 0) { fr = rp::make_request(c.serial, sp.write, sp.w16, sp.seq, sp.addr, sp.n, sp.payload); if (sp.optx >= 0) { int ox = sp.optx; if (fr.payload.empty()) ox &= ~rp::PLCRC; fr.options = (fr.options & rp::WORD16) | ox; } }
        else if (sp.kind == 1) { rp::Frame rq = rp::make_request(c.serial, sp.write, sp.w16, sp.seq, sp.addr, sp.n, {}); fr = rp::make_response(c.serial, rq, sp.code, sp.w16, sp.code == rp::C_ACK && !sp.write ? sp.payload : Bytes(), sp.vaddr); }
        else fr = rp::make_meta(c.serial, sp.meta);
        return fr;
    };
    size_t need = 16;
    for (auto &f : c.frames) {
        rp::Frame fr = build(f);
        size_t raw = rp::encode(fr).size() + (f.dmg ? 1 : 0), hdr = raw - fr.payload.size();
        size_t answer = (f.kind == 0 && !f.write && f.w16 == c.mem16) ? (size_t)f.n * (c.mem16 ? 2 : 1) : 0;   // the read answer is assembled behind the received header
        need = std::max(need, std::max(raw, hdr + answer));
    }
    size_t block = frame_struct_size() + need + c.extra;
    Session S(c.serial, c.mem16, block, c.chunk_src, c.chunk_snk);
    if (c.half == 1 && c.mem16) regp_use_memory16(&S.p, regp_void_read16, vp_write16);   // (the library exports placeholders for 16-bit memories only)
    if (c.half == 2 && c.mem16) regp_use_memory16(&S.p, vp_read16, regp_void_write16);
    be().reset(); be().salt = c.extra * 7 + 1;
    // the second instance of a nested session: it has received a request and will answer it with ERANGE(0x5a5a5a5a) from inside S's sink driver
    std::unique_ptr<Session> N; RPMaybeFrame nmf; memset(&nmf, 0, sizeof nmf);
    if (c.nest) {
        N.reset(new Session(c.serial, !c.mem16, 300, true, true));
        N->feed(rp::on_wire(c.serial, rp::encode(rp::make_request(c.serial, false, !c.mem16, 0x7e57, 0x0badf00du, 3, {}))));
        if (regp_recv(&N->p, &nmf) != 0 || !nmf.frame) { msg = "nested instance did not receive its request"; return "harness:nested-setup"; }
    }
    size_t mixed = 0;
    for (size_t i = 0; i < c.frames.size(); i++) {
        const Spec &sp = c.frames[i];
        rp::Frame fr = build(sp);
        rp::Frame chk;
        if (sp.dmg) {
            // a frame that fails reception never causes a memory access (what is replied is C07's subject)
            Bytes raw = damaged(fr, sp.dmg);
            rp::Verdict v = rp::decode(raw, chk);
            if (v != rp::V_OK) {
                S.feed(rp::on_wire(c.serial, raw));
                size_t calls0 = be().log.size();
                RPMaybeFrame mf; memset(&mf, 0, sizeof mf);
                (void)regp_recv(&S.p, &mf);
                (void)regp_process(&S.p, &mf);
                (void)S.take_output();
                size_t ncalls = be().log.size() - calls0;
                if (mf.frame) regp_free(&S.p, mf.frame);
                if (v != rp::V_DONTCARE && ncalls) { msg = vp::fmt("frame %zu (%s, damage %d, reference verdict %s): %zu memory accesses", i, rp::show(fr).c_str(), sp.dmg, rp::verdict_name[v], ncalls); return "failed-reception:memory-access"; }
                if (S.led.outstanding() || S.led.double_free) { msg = vp::fmt("frame %zu (damaged): ledger unbalanced", i); return "ledger"; }
                if (classify) { vp::count(); vp::cls(std::string("damaged-frame:") + rp::verdict_name[v]); if (sp.dmg >= 3 && sp.dmg <= 6) { vp::cls("damaged-frame:checksum-field-0000-or-ffff"); vp::nontrivial(vp::mix(vp::fnv(raw.data(), raw.size()), 99 + (uint64_t)sp.dmg)); } }
                continue;
            }
        }
        if (rp::decode(rp::encode(fr), chk) != rp::V_OK) { msg = "generated frame is not valid under the reference decoder: " + rp::show(fr); return "harness:invalid-frame-generated"; }
        S.feed(rp::on_wire(c.serial, rp::encode(fr)));
        be().script.clear(); be().next = 0;
        be().script.push_back({sp.code, sp.vaddr});
        size_t calls0 = be().log.size();
        RPMaybeFrame mf; memset(&mf, 0, sizeof mf);
        int rr = regp_recv(&S.p, &mf);
        std::string tag = vp::fmt("frame %zu (%s): ", i, rp::show(fr).c_str());
        if (rr != 0 || mf.error.id != 0 || mf.frame == nullptr) { msg = tag + vp::fmt("regp_recv rc=%d error.id=%d", rr, mf.error.id); if (mf.frame) regp_free(&S.p, mf.frame); return "valid-frame-not-received"; }
        if (!S.snk.got.empty()) { msg = tag + "reception of a valid frame produced output"; regp_free(&S.p, mf.frame); return "recv:unexpected-output"; }
        if (c.nest) S.snk.hook = [&]() { (void)regp_resp_erange(&N->p, nmf.frame, 0x5a5a5a5au); (void)N->take_output(); };
        if (sp.muted) regp_use_channel(&S.p, c.serial ? RP_EP_SERIAL : RP_EP_TCP, S.src.src, sink_null);
        int pr = regp_process(&S.p, &mf);
        if (sp.muted) regp_use_channel(&S.p, c.serial ? RP_EP_SERIAL : RP_EP_TCP, S.src.src, S.snk.snk);
        S.snk.hook = nullptr;
        (void)pr;   // return codes of regp_process are not part of the property
        Bytes out = S.take_output();
        size_t ncalls = be().log.size() - calls0;
        bool width_ok = sp.w16 == c.mem16;
        bool voided = c.mem16 && ((c.half == 1 && !sp.write) || (c.half == 2 && sp.write));   // this direction is served by the library's placeholder accessor: EUNMAPPED at the request's address, the attached accessor is not involved
        std::string key;
        if (sp.kind != 0) {
            if (ncalls) { msg = tag + "a response/meta frame caused a memory access"; key = "non-request:memory-access"; }
            else if (!out.empty()) { msg = tag + "a response/meta frame was answered"; key = "non-request:answered"; }
        } else if (voided && width_ok) {
            if (ncalls) { msg = tag + "the direction without an attached accessor reached the attached one"; key = "half-memory:wrong-accessor-called"; }
            else if (!sp.muted) {
                std::vector<Bytes> frames; rp::Frame got;
                if (!rp::split_wire(c.serial, out, frames) || frames.size() != 1) { msg = tag + vp::fmt("%zu frames in the reply", frames.size()); key = "half-memory:no-reply"; }
                else if (rp::decode(frames[0], got) != rp::V_OK) { msg = tag + "reply is not a valid frame"; key = "half-memory:reply-invalid"; }
                else { rp::Frame want = rp::make_response(c.serial, fr, rp::C_EUNMAPPED, c.mem16, {}, sp.addr); std::string d = same_fields(got, want); if (!d.empty()) { msg = tag + "reply of the placeholder accessor differs in " + d + ": " + rp::show(got); key = "half-memory:reply-" + d; } }
            }
            if (classify && key.empty()) vp::cls("request-for-the-direction-without-accessor");
        } else if (sp.muted) {
            // nobody listens: the request is executed exactly once all the same (reads may have side effects in the back-end)
            if (!width_ok) { if (ncalls) { msg = tag + "word-size mismatch but memory was accessed"; key = "wordsize:memory-access"; } }
            else if (ncalls != 1) { msg = tag + vp::fmt("%zu memory accesses while the sink is the library's sink_null", ncalls); key = ncalls ? "request:accessed-more-than-once" : "muted:request-not-executed"; }
            else { const Call &cl = be().log.back(); if (cl.write != sp.write || cl.addr != sp.addr || cl.n != sp.n || (sp.write && cl.data != sp.payload)) { msg = tag + "access arguments differ from the request"; key = "request:wrong-access-arguments"; } }
            if (classify && key.empty()) vp::cls("request-processed-with-sink_null");
        } else {
            std::vector<Bytes> frames; rp::Frame got;
            if (!rp::split_wire(c.serial, out, frames) || frames.size() != 1) { msg = tag + vp::fmt("%zu frames in the reply (%zu octets)", frames.size(), out.size()); key = frames.empty() ? "request:no-reply" : "request:several-replies"; }
            else if (rp::decode(frames[0], got) != rp::V_OK) { msg = tag + "reply is not a valid frame: " + rp::show(got); key = "request:reply-invalid"; }
            else if (!width_ok) {
                if (ncalls) { msg = tag + "word-size mismatch but memory was accessed"; key = "wordsize:memory-access"; }
                else { rp::Frame want = rp::make_response(c.serial, fr, rp::C_EWORDSIZE, c.mem16, {}, 0); std::string d = same_fields(got, want); if (!d.empty()) { msg = tag + "EWORDSIZE reply differs in " + d + ": " + rp::show(got); key = "wordsize:reply-" + d; } }
            } else if (ncalls != 1) { msg = tag + vp::fmt("%zu memory accesses", ncalls); key = ncalls ? "request:accessed-more-than-once" : "request:not-executed"; }
            else {
                const Call &cl = be().log.back();
                if (cl.write != sp.write || cl.w16 != c.mem16 || cl.addr != sp.addr || cl.n != sp.n) { msg = tag + vp::fmt("access %s addr=%u n=%zu", cl.write ? "write" : "read", cl.addr, cl.n); key = "request:wrong-access-arguments"; }
                else if (sp.write && cl.data != sp.payload) { msg = tag + "backend received " + vp::hex(cl.data) + " payload was " + vp::hex(sp.payload); key = "request:write-payload-differs"; }
                else {
                    uint32_t value = (sp.code == rp::C_ERXOVERFLOW || sp.code == rp::C_ETXOVERFLOW) ? (uint32_t)(block - frame_struct_size()) : sp.vaddr;
                    rp::Frame want = rp::make_response(c.serial, fr, sp.code, c.mem16, (sp.code == rp::C_ACK && !sp.write) ? cl.data : Bytes(), value);
                    std::string d = same_fields(got, want);
                    if (!d.empty()) { msg = tag + vp::fmt("reply for backend verdict %s differs in %s: %s, expected %s", rp::code_name[sp.code], d.c_str(), rp::show(got).c_str(), rp::show(want).c_str()); key = std::string("reply:") + rp::code_name[sp.code] + ":" + d; }
                }
            }
        }
        regp_free(&S.p, mf.frame);
        if (key.empty() && (S.led.outstanding() || S.led.double_free)) { msg = tag + vp::fmt("%zu blocks outstanding after regp_free%s", S.led.outstanding(), S.led.double_free ? ", double free" : ""); key = "ledger"; }
        if (!key.empty()) return key;
        if (classify) {
            vp::count();
            bool nt = sp.kind == 0 && (sp.n >= 2 || sp.code != rp::C_ACK || !width_ok);
            if (nt) { vp::nontrivial(vp::mix(vp::fnv(rp::encode(fr).data(), rp::encode(fr).size()), (uint64_t)sp.code * 4 + c.serial * 2 + c.mem16)); mixed++; }
            vp::cls(sp.kind == 0 ? (width_ok ? std::string("request-verdict-") + rp::code_name[sp.code] : "request-width-mismatch") : sp.kind == 1 ? "response-frame" : "meta-frame");
        }
    }
    if (c.nest && nmf.frame) regp_free(&N->p, nmf.frame);
    if (classify && c.nest) vp::cls("session-with-a-second-instance-answering-from-inside-the-sink-driver");
    if (classify && c.frames.size() >= 3) vp::cls("session>=3-frames");
    return "";
}

static rc::Gen<Bytes> genPayload(size_t n) {
    return rc::gen::container<Bytes>(n, rc::gen::weightedOneOf<uint8_t>({{3, rc::gen::element<uint8_t>(0xc0, 0xdb, 0xdc, 0xdd, 0x00, 0xff)}, {2, rc::gen::arbitrary<uint8_t>()}}));
}
static rc::Gen<Case> genCase() {
    return rc::gen::exec([]() {
        Case c;
        c.serial = *rc::gen::arbitrary<bool>(); c.mem16 = *rc::gen::arbitrary<bool>(); c.chunk_src = *rc::gen::arbitrary<bool>(); c.chunk_snk = *rc::gen::arbitrary<bool>();
        c.extra = *rc::gen::weightedOneOf<uint32_t>({{4, rc::gen::just<uint32_t>(0)}, {2, vprc::uni<uint32_t>(0, 3)}, {4, vprc::uni<uint32_t>(0, 40)}, {1, rc::gen::element<uint32_t>(65300u, 65436u, 65500u, 65535u, 65536u, 70000u, 131000u, 131072u)}});   // the last group: allocator blocks beyond 64 KiB, sized so that the room for a read answer lies just across a multiple of 2^16
        c.nest = *rc::gen::weightedElement<bool>({{4, false}, {1, true}});
        c.half = *rc::gen::weightedElement<int>({{6, 0}, {1, 1}, {1, 2}});
        size_t nf = *vprc::uni<size_t>(1, 8);
        bool mem16 = c.mem16;
        c.frames = *rc::gen::container<std::vector<Spec>>(nf, rc::gen::exec([mem16]() {
            Spec s;
            s.kind = *rc::gen::weightedElement<int>({{8, 0}, {1, 1}, {1, 2}});
            s.write = *rc::gen::arbitrary<bool>();
            s.w16 = *rc::gen::weightedElement<bool>({{6, mem16}, {1, !mem16}});
            s.seq = *rc::gen::weightedOneOf<uint16_t>({{1, rc::gen::element<uint16_t>(0, 0xffff, 0xc0db, 1)}, {2, rc::gen::arbitrary<uint16_t>()}});
            s.addr = *rc::gen::weightedOneOf<uint32_t>({{1, rc::gen::element<uint32_t>(0, 0xffffffffu, 0xc0c0c0c0u, 0x80000000u)}, {2, rc::gen::arbitrary<uint32_t>()}});
            s.n = *rc::gen::weightedOneOf<uint32_t>({{4, vprc::uni<uint32_t>(0, 8)}, {1, vprc::uni<uint32_t>(9, 200)}});
            s.payload = *genPayload((s.kind == 0 && s.write) || (s.kind == 1 && !s.write) ? (size_t)s.n * (s.w16 ? 2 : 1) : 0);
            s.code = *rc::gen::weightedOneOf<int>({{2, rc::gen::just(0)}, {3, vprc::uni<int>(0, 11)}});
            s.vaddr = *rc::gen::weightedOneOf<uint32_t>({{1, rc::gen::element<uint32_t>(0, 0xffffffffu, 0xdbdcddc0u)}, {1, rc::gen::arbitrary<uint32_t>()}});
            s.meta = *vprc::uni<int>(1, 2);
            s.optx = *rc::gen::weightedElement<int>({{5, -1}, {1, 0}, {1, rp::HDCRC}, {1, rp::PLCRC}, {1, rp::HDCRC | rp::PLCRC}});
            s.dmg = *rc::gen::weightedOneOf<int>({{6, rc::gen::just(0)}, {1, vprc::uni<int>(1, 8)}});
            s.muted = *rc::gen::weightedElement<bool>({{9, false}, {1, true}});
            return s;
        }));
        return c;
    });
}
static std::string oracle(const Case &c) {
    std::string msg, key = run_case(c, msg, true);
    vp::cls("sessions");
    VP_SAMPLE(ser_case(c));
    if (!key.empty()) vprc::last().msg = msg;
    return key;
}
static void run() {
    vp::stats().rule = "rc: sessions of 1..8 frames on one RegP instance (serial/tcp x 8/16-bit memory x octet/chunk endpoints x receive blocks exactly as large as the largest frame/answer needs, +0..40 octets or beyond 64 KiB / 128 KiB; requests also with non-canonical checksum option bits): requests of all four kinds "
                       "incl. word-size mismatches, block sizes 0..200, payloads rich in SLIP control octets, every back-end verdict (12 codes + address), interleaved response and meta frames and frames damaged on the way (checksum fields off by bits or forced to 0x0000/0xffff, payload one octet short/long: must not reach the back-end); "
                       "oracle = recording back-end (calls, arguments, payload) + reference decoder on the sink octets + allocation ledger";
    vprc::check<Case>("requests are executed once and answered faithfully", genCase(), oracle, ser_case);
}
static bool replay(const std::string &text) {
    Case c; bool have = false;
    for (auto &l : vp::lines(text)) {
        auto w = vp::split(l);
        if (w.size() >= 6 && w[0] == "session") { c.serial = atoi(w[1].c_str()); c.mem16 = atoi(w[2].c_str()); c.chunk_src = atoi(w[3].c_str()); c.chunk_snk = atoi(w[4].c_str()); c.extra = (uint32_t)strtoul(w[5].c_str(), 0, 10); c.nest = w.size() >= 7 && atoi(w[6].c_str()); c.half = w.size() >= 8 ? atoi(w[7].c_str()) : 0; have = true; }
        else if (w.size() >= 11 && w[0] == "frame") c.frames.push_back({atoi(w[1].c_str()), (bool)atoi(w[2].c_str()), (bool)atoi(w[3].c_str()), (uint16_t)strtoul(w[4].c_str(), 0, 10), (uint32_t)strtoul(w[5].c_str(), 0, 10),
                                                                      (uint32_t)strtoul(w[6].c_str(), 0, 10), w[10] == "-" ? Bytes() : vp::unhex(w[10]), atoi(w[7].c_str()), (uint32_t)strtoul(w[8].c_str(), 0, 10), atoi(w[9].c_str()), w.size() >= 12 ? atoi(w[11].c_str()) : -1, w.size() >= 13 ? atoi(w[12].c_str()) : 0, w.size() >= 14 && atoi(w[13].c_str()) != 0});
    }
    if (!have) return false;
    std::string msg, key = run_case(c, msg, false);
    if (!key.empty()) printf("[replay] key=%s %s\n", key.c_str(), msg.c_str());
    return key.empty();
}
VP_MAIN(run, replay)
