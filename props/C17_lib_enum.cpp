// C17 — the endpoints the library itself supplies (buffer, chunk list, instrumentable, file descriptor) are drivers too: reading or
// writing through them delivers exactly the next octets of the underlying stream, through every entry point and the plumbing.
#include "support/endpoints.hpp"
#include <array>
#include <unistd.h>
#include <fcntl.h>

typedef std::vector<uint8_t> Bytes;
typedef std::array<size_t, 3> Spec;   // size, used, offset of one buffer

// source kinds: B source_from_buffer, C source_from_chunks, I instrumentable_source (errat >= 0: error `code` at that offset), P pipe (source_from_filedesc)
// sink kinds:   b sink_to_buffer, i instrumentable_sink (errat), p pipe (sink_to_filedesc), - none (source-only case)
// ops: e<n> exact chunk call, a<n> at-most call, o octet call (on the source for source-only cases, on the sink for sink-only cases);
//      plumbing ops (both present): c sts_cbc, n<k> sts_n_cbc, d sts_drain_cbc, N<k> sts_n_aux, D sts_drain_aux, s sts_some_aux, A<k> sts_atmost_aux
struct Op { char kind; size_t n; };
struct Case {
    char src = '-', snk = '-';
    std::vector<Spec> chunks; size_t active = 0;   // source content
    long src_errat = -1; int src_code = -EIO;
    Spec sinkbuf = {0, 0, 0};                      // sink buffer (size, used, offset)
    long snk_errat = -1; int snk_code = -EIO;
    size_t auxsize = 4;
    std::vector<Op> ops;
};
static std::string ser(const Case &c) {
    std::string s = vp::fmt("libep %c %c %zu %ld %d %zu %zu %zu %ld %d %zu C", c.src, c.snk, c.active, c.src_errat, c.src_code, c.sinkbuf[0], c.sinkbuf[1], c.sinkbuf[2], c.snk_errat, c.snk_code, c.auxsize);
    for (auto &ch : c.chunks) s += vp::fmt(" %zu %zu %zu", ch[0], ch[1], ch[2]);
    s += " O";
    for (auto &o : c.ops) s += vp::fmt(" %c%zu", o.kind, o.n);
    return s + "\n";
}
static bool parse(const std::string &t, Case &c) {
    auto w = vp::split(vp::lines(t).at(0));
    if (w.size() < 13 || w[0] != "libep") return false;
    size_t i = 1;
    c.src = w[i++][0]; c.snk = w[i++][0]; c.active = strtoull(w[i++].c_str(), 0, 10); c.src_errat = atol(w[i++].c_str()); c.src_code = atoi(w[i++].c_str());
    for (int k = 0; k < 3; k++) c.sinkbuf[(size_t)k] = strtoull(w[i++].c_str(), 0, 10);
    c.snk_errat = atol(w[i++].c_str()); c.snk_code = atoi(w[i++].c_str()); c.auxsize = strtoull(w[i++].c_str(), 0, 10);
    if (w[i++] != "C") return false;
    while (i + 2 < w.size() && w[i] != "O") { c.chunks.push_back({(size_t)strtoull(w[i].c_str(), 0, 10), (size_t)strtoull(w[i + 1].c_str(), 0, 10), (size_t)strtoull(w[i + 2].c_str(), 0, 10)}); i += 3; }
    if (i >= w.size() || w[i++] != "O") return false;
    for (; i < w.size(); i++) c.ops.push_back({w[i][0], (size_t)strtoull(w[i].c_str() + 1, 0, 10)});
    return true;
}
static Case g_cur;
static void F(const Case &c, const std::string &key, const std::string &msg) { vp::fail(std::string("lib:") + c.src + c.snk + ":" + key, msg, ser(c)); }
static uint8_t pay(size_t i) { return (uint8_t)(0x31 + 7 * i + (i >> 8)); }

struct Buf { vp::Block blk; ByteBuffer b; Buf(const Spec &s, size_t salt) : blk(s[0] ? s[0] : 1, 0x5c) { for (size_t i = 0; i < s[0]; i++) blk.p[i] = pay(i + salt); b.data = blk.p; b.size = s[0]; b.used = s[1]; b.offset = s[2]; } };

struct LibSource {
    Source src; std::vector<Buf *> bufs; std::vector<ByteBuffer> arr; ByteChunks bc; InstrumentableBuffer ib; int fd[2] = {-1, -1};
    Bytes stream;          // what a reader must see, in order
    int end_code = -ENODATA;
    ~LibSource() { for (auto *b : bufs) delete b; if (fd[0] >= 0) close(fd[0]); if (fd[1] >= 0) close(fd[1]); }
};
static bool make_source(const Case &c, LibSource &L) {
    size_t salt = 0;
    for (auto &ch : c.chunks) { L.bufs.push_back(new Buf(ch, salt)); salt += 41; }
    for (auto *b : L.bufs) L.arr.push_back(b->b);
    size_t first = (c.src == 'C') ? c.active : 0, last = (c.src == 'C') ? L.arr.size() : std::min<size_t>(1, L.arr.size());
    for (size_t i = first; i < last; i++) L.stream.insert(L.stream.end(), L.arr[i].data + L.arr[i].offset, L.arr[i].data + L.arr[i].used);
    switch (c.src) {
    case 'B': if (L.arr.empty()) return false; source_from_buffer(&L.src, &L.arr[0]); break;
    case 'C': L.bc.chunks = L.arr.size(); L.bc.active = c.active; L.bc.chunk = L.arr.data(); source_from_chunks(&L.src, &L.bc); break;
    case 'I':
        if (L.arr.empty()) return false;
        memset(&L.ib, 0, sizeof L.ib); L.ib.buffer = L.arr[0];
        instrumentable_source(&L.src, &L.ib);
        if (c.src_errat >= 0) {
            instrumentable_error_at(&L.ib, (size_t)c.src_errat, c.src_code);
            // the error position is a buffer offset
            size_t off = L.arr[0].offset, cut = (size_t)c.src_errat > off ? (size_t)c.src_errat - off : 0;
            if (cut <= L.stream.size()) { L.stream.resize(cut); L.end_code = c.src_code; }   // the armed error is looked at before the end of the buffer
        }
        break;
    case 'P': {
        if (pipe(L.fd) != 0) return false;
        if (!L.stream.empty() && write(L.fd[1], L.stream.data(), L.stream.size()) != (ssize_t)L.stream.size()) return false;
        close(L.fd[1]); L.fd[1] = -1;
        source_from_filedesc(&L.src, &L.fd[0]);
        break; }
    default: return false;
    }
    return true;
}
struct LibSink {
    Sink snk; Buf *buf = nullptr; InstrumentableBuffer ib; int fd[2] = {-1, -1};
    size_t room = 0; int full_code = -ENOMEM; Bytes before;
    ~LibSink() { delete buf; if (fd[0] >= 0) close(fd[0]); if (fd[1] >= 0) close(fd[1]); }
    ByteBuffer *bb() { return &buf->b; }
};
static bool make_sink(const Case &c, LibSink &K) {
    switch (c.snk) {
    case 'b': K.buf = new Buf(c.sinkbuf, 500); sink_to_buffer(&K.snk, &K.buf->b); K.room = c.sinkbuf[0] - c.sinkbuf[1]; break;
    case 'i':
        K.buf = new Buf(c.sinkbuf, 500);
        memset(&K.ib, 0, sizeof K.ib); K.ib.buffer = K.buf->b;
        instrumentable_sink(&K.snk, &K.ib);
        K.room = c.sinkbuf[0] - c.sinkbuf[1];
        if (c.snk_errat >= 0) { instrumentable_error_at(&K.ib, (size_t)c.snk_errat, c.snk_code); size_t r = (size_t)c.snk_errat > c.sinkbuf[1] ? (size_t)c.snk_errat - c.sinkbuf[1] : 0; if (r <= K.room) { K.room = r; K.full_code = c.snk_code; } }   // the armed error is looked at before the fill state
        break;
    case 'p':
        if (pipe(K.fd) != 0) return false;
        fcntl(K.fd[0], F_SETFL, O_NONBLOCK);
        sink_to_filedesc(&K.snk, &K.fd[1]); K.room = 60000;
        break;
    default: return false;
    }
    return true;
}
// octets the sink has accepted since it was made
static Bytes sink_content(const Case &c, LibSink &K) {
    if (c.snk == 'b') return Bytes(K.buf->blk.p + c.sinkbuf[1], K.buf->blk.p + K.buf->b.used);
    if (c.snk == 'i') return Bytes(K.buf->blk.p + c.sinkbuf[1], K.buf->blk.p + K.ib.buffer.used);
    Bytes out; uint8_t tmp[4096]; ssize_t r;
    while ((r = read(K.fd[0], tmp, sizeof tmp)) > 0) out.insert(out.end(), tmp, tmp + r);
    K.before.insert(K.before.end(), out.begin(), out.end());
    return K.before;
}
static bool sink_intact(const Case &c, LibSink &K) {
    if (c.snk == 'p') return true;
    for (size_t i = 0; i < c.sinkbuf[1]; i++) if (K.buf->blk.p[i] != pay(i + 500)) return false;   // what the buffer held before stays
    const ByteBuffer &b = c.snk == 'b' ? K.buf->b : K.ib.buffer;
    return b.data == K.buf->blk.p && b.size == c.sinkbuf[0] && b.offset <= b.used && b.used <= b.size;
}

static void run_case(const Case &c) {
    g_cur = c;
    vp::count();
    bool have_src = c.src != '-', have_snk = c.snk != '-';
    LibSource L; LibSink K;
    if (have_src && !make_source(c, L)) { vp::stats().dontcare++; return; }
    if (have_snk && !make_sink(c, K)) { vp::stats().dontcare++; return; }
    size_t pos = 0;          // how much of L.stream has been read
    Bytes written;           // what has been offered to and accepted by the sink (sink-only cases) / moved (plumbing)
    for (size_t oi = 0; oi < c.ops.size(); oi++) {
        const Op &op = c.ops[oi];
        std::string tag = vp::fmt("op %zu (%c%zu): ", oi, op.kind, op.n);
        if (have_src && !have_snk) {
            size_t left = L.stream.size() - pos;
            vp::Block dst(op.n ? op.n : 1, 0xee);
            if (op.kind == 'e') {
                ssize_t r = source_get_chunk(&L.src, dst.p, op.n);
                if (op.n == 0) { if (r != -EINVAL) { F(c, "zero-not-invalid", tag + vp::fmt("returned %zd", r)); return; } continue; }
                if (op.n <= left) {
                    if (r != (ssize_t)op.n) { F(c, "exact-return", tag + vp::fmt("returned %zd with %zu octets left in the stream", r, left)); return; }
                    if (memcmp(dst.p, L.stream.data() + pos, op.n) != 0) { F(c, "exact-octets", tag + "delivered " + vp::hex(dst.p, op.n) + " expected " + vp::hex(L.stream.data() + pos, op.n)); return; }
                    pos += op.n;
                } else {
                    if (r != L.end_code) { F(c, "end-code", tag + vp::fmt("stream has %zu octets left: returned %zd, the driver's condition is %d", left, r, L.end_code)); return; }
                    if (left && memcmp(dst.p, L.stream.data() + pos, left) != 0) { F(c, "failed-read-not-a-prefix", tag + "octets delivered before the failure are not the next octets of the stream"); return; }
                    for (size_t i = left; i < op.n; i++) if (dst.p[i] != 0xee) { F(c, "failed-read-wrote-beyond", tag + "destination written beyond what the stream holds"); return; }
                    return;   // the stream is used up
                }
            } else if (op.kind == 'a') {
                if (op.n == 0) continue;
                ssize_t r = source_get_chunk_atmost(&L.src, dst.p, op.n);
                if (left == 0) { if (r != L.end_code) { F(c, "end-code", tag + vp::fmt("at the end of the stream: returned %zd, expected %d", r, L.end_code)); } return; }
                if (r <= 0 || (size_t)r > std::min(op.n, left)) { F(c, "atmost-count", tag + vp::fmt("returned %zd with %zu asked and %zu left", r, op.n, left)); return; }
                if (memcmp(dst.p, L.stream.data() + pos, (size_t)r) != 0) { F(c, "atmost-octets", tag + "delivered " + vp::hex(dst.p, (size_t)r) + " expected " + vp::hex(L.stream.data() + pos, (size_t)r)); return; }
                for (size_t i = (size_t)r; i < op.n; i++) if (dst.p[i] != 0xee) { F(c, "atmost-wrote-beyond", tag + "destination written beyond the returned count"); return; }
                pos += (size_t)r;
            } else {
                uint8_t o = 0xee;
                int r = source_get_octet(&L.src, &o);
                if (left == 0) { if (r != L.end_code) F(c, "end-code", tag + vp::fmt("at the end of the stream: returned %d, expected %d", r, L.end_code)); return; }
                if (r != 1 || o != L.stream[pos]) { F(c, "octet", tag + vp::fmt("returned %d octet %02x expected %02x", r, o, L.stream[pos])); return; }
                pos += 1;
            }
            continue;
        }
        if (have_snk && !have_src) {
            Bytes data(op.n); for (size_t i = 0; i < op.n; i++) data[i] = pay(written.size() + i + 900);
            vp::Block srcblk(op.n ? op.n : 1); if (op.n) memcpy(srcblk.p, data.data(), op.n);
            size_t room = K.room - written.size();
            ssize_t r;
            if (op.kind == 'o') { r = sink_put_octet(&K.snk, srcblk.p[0]); data.assign(1, srcblk.p[0]); }
            else if (op.kind == 'e') r = sink_put_chunk(&K.snk, srcblk.p, op.n);
            else { if (op.n == 0) continue; r = sink_put_chunk_atmost(&K.snk, srcblk.p, op.n); }
            size_t n = op.kind == 'o' ? 1 : op.n;
            if (op.kind == 'e' && op.n == 0) { if (r != -EINVAL) { F(c, "zero-not-invalid", tag + vp::fmt("returned %zd", r)); return; } continue; }
            Bytes now = sink_content(c, K);
            if (!sink_intact(c, K)) { F(c, "sink-buffer-damaged", tag + "previous content or descriptor of the sink buffer changed"); return; }
            if (now.size() < written.size() || !std::equal(written.begin(), written.end(), now.begin())) { F(c, "sink-lost-octets", tag + "octets accepted earlier are gone"); return; }
            Bytes added(now.begin() + (long)written.size(), now.end());
            if (added.size() > n || !std::equal(added.begin(), added.end(), data.begin())) { F(c, "sink-not-a-prefix", tag + "sink gained " + vp::hex(added) + " offered " + vp::hex(data)); return; }
            if (n <= room) {
                if (op.kind == 'a') { if (r <= 0 || (size_t)r != added.size()) { F(c, "atmost-count", tag + vp::fmt("returned %zd, sink gained %zu octets", r, added.size())); return; } }
                else if (r != (ssize_t)(op.kind == 'o' ? 1 : n) || added.size() != n) { F(c, "write-return", tag + vp::fmt("room for %zu octets: returned %zd, sink gained %zu", room, r, added.size())); return; }
            } else {
                if (op.kind == 'a' && r >= 0) { if ((size_t)r != added.size()) { F(c, "atmost-count", tag + vp::fmt("returned %zd, sink gained %zu octets", r, added.size())); return; } }
                else if (r >= 0) { F(c, "overfull-accepted", tag + vp::fmt("room for %zu octets, %zu offered, returned %zd", room, n, r)); return; }
                else if (r != K.full_code) { F(c, "full-code", tag + vp::fmt("returned %zd, the driver's condition is %d", r, K.full_code)); return; }
            }
            written = now;
            if (r < 0) return;
            continue;
        }
        // plumbing from a library source into a library sink
        size_t left = L.stream.size() - pos, room = K.room - written.size();
        vp::Block auxmem(c.auxsize, 0x77);
        ByteBuffer ab; ab.data = auxmem.p; ab.size = c.auxsize; ab.used = c.auxsize; ab.offset = 0;
        ssize_t r = 0; size_t want = 0; bool exact = false, drain = false;
        if (!VP_BUDGET(4096 + 64 * (L.stream.size() + op.n))) { F(c, "no-progress", tag + "plumbing keeps calling the drivers"); return; }
        switch (op.kind) {
        case 'c': r = sts_cbc(&L.src, &K.snk); want = std::min<size_t>(1, left); exact = left >= 1; break;
        case 'n': r = sts_n_cbc(&L.src, &K.snk, op.n); want = std::min(op.n, left); exact = op.n <= left; break;
        case 'd': r = sts_drain_cbc(&L.src, &K.snk); want = left; drain = true; break;
        case 'N': r = sts_n_aux(&L.src, &K.snk, &ab, op.n); want = std::min(op.n, left); exact = op.n <= left; break;
        case 'D': r = sts_drain_aux(&L.src, &K.snk, &ab); want = left; drain = true; break;
        case 's': r = sts_some_aux(&L.src, &K.snk, &ab); want = std::min(c.auxsize, left); break;
        case 'A': r = sts_atmost_aux(&L.src, &K.snk, &ab, op.n); want = std::min(std::min(c.auxsize, op.n), left); break;
        default: vp::budget().armed = false; return;
        }
        vp::budget().armed = false;
        Bytes now = sink_content(c, K);
        if (!sink_intact(c, K)) { F(c, "sink-buffer-damaged", tag + "previous content or descriptor of the sink buffer changed"); return; }
        Bytes should(L.stream.begin(), L.stream.begin() + (long)pos);   // everything moved so far
        if (now.size() < should.size() || !std::equal(should.begin(), should.end(), now.begin())) { F(c, "sink-lost-octets", tag + "octets moved earlier are gone"); return; }
        size_t moved = now.size() - pos;
        if (pos + moved > L.stream.size() || !std::equal(now.begin() + (long)pos, now.end(), L.stream.begin() + (long)pos)) { F(c, "sink-not-a-prefix", tag + "sink holds " + vp::hex(now) + ", stream is " + vp::hex(L.stream)); return; }
        if (want <= room) {
            // nothing stands in the way: exactly the requested count, or everything up to the source's end
            if (op.kind == 's' || op.kind == 'A') {
                if (want == 0) { if (op.kind == 'A' && op.n == 0) { /* nothing asked */ } else if (r >= 0 && left == 0) { F(c, "end-code", tag + vp::fmt("source at its end but returned %zd", r)); return; } }
                else if (r <= 0 || (size_t)r != moved || moved > want) { F(c, "atmost-count", tag + vp::fmt("returned %zd, moved %zu, limit %zu", r, moved, want)); return; }
            } else {
                if (moved != want) { F(c, "moved-count", tag + vp::fmt("moved %zu octets, expected %zu (stream left %zu, sink room %zu)", moved, want, left, room)); return; }
                if (exact && r != (ssize_t)(op.kind == 'c' ? (r > 0 ? r : 1) : op.n) && op.kind != 'c') { F(c, "counted-return", tag + vp::fmt("returned %zd for n=%zu", r, op.n)); return; }
                if (!exact && !drain && r >= 0 && op.kind != 'c') { F(c, "short-source-success", tag + vp::fmt("source ends after %zu octets, n=%zu, returned %zd", left, op.n, r)); return; }
                if (op.kind == 'c' && left && r < 0) { F(c, "error-without-cause", tag + vp::fmt("returned %zd", r)); return; }
            }
        } else if (r >= 0 && (exact || drain) && moved < want) { F(c, "success-despite-full-sink", tag + vp::fmt("returned %zd but only %zu of %zu octets reached the sink", r, moved, want)); return; }
        pos += moved; written = now;
        if (r < 0) return;
    }
}

static const std::vector<Spec> CS = {{1, 0, 0}, {1, 1, 0}, {1, 1, 1}, {2, 2, 0}, {2, 2, 1}, {3, 2, 1}, {3, 3, 3}, {3, 0, 0}, {4, 4, 0}, {6, 5, 1}};
static const std::vector<Op> SRC_OPS = {{'e', 1}, {'e', 2}, {'e', 3}, {'e', 5}, {'a', 1}, {'a', 2}, {'a', 4}, {'o', 0}, {'e', 0}};
static const std::vector<Op> PL_OPS = {{'c', 0}, {'n', 1}, {'n', 3}, {'d', 0}, {'N', 2}, {'N', 5}, {'D', 0}, {'s', 0}, {'A', 1}, {'A', 3}};

static void run() {
    auto &a = vp::args();
    vp::CaseScope scope([] { return ser(g_cur); });
    bool T = a.thorough();
    vp::stats().rule = "enum: the library's own endpoints as drivers - sources from a buffer, from chunk lists of 1..3 small buffers (empty, partly consumed, every active index), instrumentable sources (with an error "
                       "armed at every offset) and pipes; sinks into buffers (every fill state), instrumentable sinks (error armed at every fill) and pipes - under every sequence of up to 3 exact / at-most / "
                       "octet calls, and every sequence of up to 2 plumbing calls (cbc, counted, drain, aux variants) between them; oracle = the unread octets in order, counts, the driver's own end/full condition returned unchanged";
    vp::stats().exhaustive = true;
    uint64_t idx = 0;
    auto mine = [&]() { return idx++ % a.nshards == a.shard; };
    size_t maxops = T ? 4 : 3;
    // all chunk lists
    std::vector<std::pair<std::vector<Spec>, size_t>> lists;
    for (size_t nch = 1; nch <= 3; nch++) {
        uint64_t total = 1; for (size_t i = 0; i < nch; i++) total *= CS.size();
        for (uint64_t code = 0; code < total; code++) for (size_t active = 0; active <= (nch > 1 ? 2u : 0u) && active <= nch; active++) {
            std::vector<Spec> l; uint64_t x = code; for (size_t i = 0; i < nch; i++) { l.push_back(CS[x % CS.size()]); x /= CS.size(); }
            lists.push_back({l, active});
        }
    }
    // (1) sources alone
    for (auto &la : lists) {
        bool empty_mid = false; for (size_t i = 0; i + 1 < la.first.size(); i++) if (la.first[i][1] == la.first[i][2]) empty_mid = true;
        for (char kind : {'C', 'B', 'I', 'P'}) {
            if (kind != 'C' && (la.first.size() != 1 || la.second != 0)) continue;
            if (!mine()) continue;
            std::vector<long> errats = {-1};
            if (kind == 'I') for (long e = 0; e <= (long)la.first[0][0]; e++) errats.push_back(e);
            for (long errat : errats) {
                uint64_t nseq = 1; for (size_t i = 0; i < maxops; i++) nseq *= SRC_OPS.size();
                for (uint64_t sc = 0; sc < nseq; sc++) {
                    Case c; c.src = kind; c.chunks = la.first; c.active = la.second; c.src_errat = errat; c.src_code = (errat & 1) ? -EIO : -EPIPE;
                    uint64_t x = sc; for (size_t i = 0; i < maxops; i++) { c.ops.push_back(SRC_OPS[x % SRC_OPS.size()]); x /= SRC_OPS.size(); }
                    if (kind == 'P' && sc % 7) continue;   // pipes cost system calls: every 7th sequence
                    run_case(c);
                    if (vp::want_sample()) vp::sample(ser(c));
                }
            }
            if (empty_mid || la.second) { vp::nontrivial(vp::fnv(ser(Case{kind, '-', la.first, la.second}))); vp::cls("source:chunk-list-with-empty-or-skipped-chunk"); } else vp::cls(std::string("source:") + kind);
            if (vp::too_many_failures()) return;
        }
    }
    // (2) sinks alone
    for (size_t size = 1; size <= 6; size++) for (size_t used = 0; used <= size; used++) for (size_t off = 0; off <= used; off += (used ? used : 1)) for (char kind : {'b', 'i', 'p'}) {
        if (!mine()) continue;
        std::vector<long> errats = {-1};
        if (kind == 'i') for (long e = 0; e <= (long)size; e++) errats.push_back(e);
        if (kind == 'p' && (used || size > 3)) continue;
        for (long errat : errats) {
            uint64_t nseq = 1; for (size_t i = 0; i < maxops; i++) nseq *= SRC_OPS.size();
            for (uint64_t sc = 0; sc < nseq; sc++) {
                Case c; c.snk = kind; c.sinkbuf = {size, used, off}; c.snk_errat = errat; c.snk_code = (errat & 1) ? -EIO : -EPIPE;
                uint64_t x = sc; for (size_t i = 0; i < maxops; i++) { c.ops.push_back(SRC_OPS[x % SRC_OPS.size()]); x /= SRC_OPS.size(); }
                run_case(c);
            }
        }
        vp::nontrivial(vp::mix(vp::mix(size, used), off * 4 + (uint64_t)kind)); vp::cls(std::string("sink:") + kind);
    }
    // (3) plumbing between them
    for (auto &la : lists) {
        if (la.first.size() > 2 && !T) continue;
        for (char sk : {'C', 'B', 'I'}) for (char kk : {'b', 'i'}) {
            if (sk != 'C' && (la.first.size() != 1 || la.second != 0)) continue;
            if (!mine()) continue;
            for (size_t ssize : {(size_t)2, (size_t)5, (size_t)12}) for (size_t aux : {(size_t)1, (size_t)3, (size_t)8})
                for (size_t o1 = 0; o1 < PL_OPS.size(); o1++) for (size_t o2 = 0; o2 <= PL_OPS.size(); o2++) {
                    Case c; c.src = sk; c.snk = kk; c.chunks = la.first; c.active = la.second; c.sinkbuf = {ssize, ssize > 4 ? (size_t)1 : 0, 0}; c.auxsize = aux;
                    c.ops.push_back(PL_OPS[o1]); if (o2 < PL_OPS.size()) c.ops.push_back(PL_OPS[o2]);
                    run_case(c);
                    if (vp::want_sample()) vp::sample(ser(c));
                }
            vp::nontrivial(vp::fnv(ser(Case{sk, kk, la.first, la.second}))); vp::cls("plumbing-between-library-endpoints");
            if (vp::too_many_failures()) return;
        }
    }
}
static bool replay(const std::string &text) {
    Case c;
    if (!parse(text, c)) return false;
    vp::CaseScope scope([] { return ser(g_cur); });
    run_case(c);
    return vp::stats().failures.empty();
}
VP_MAIN(run, replay)
