// C15 — endian codecs against octet arithmetic.
#include "support/vp.hpp"
#include "shims/bf_table.h"

static uint64_t maskw(unsigned w) { return w == 64 ? ~0ull : ((1ull << w) - 1); }
static uint64_t sext(uint64_t v, unsigned w) { if (w == 64) return v; v &= maskw(w); return (v >> (w - 1)) & 1 ? v | ~maskw(w) : v; }

struct Slot { uint8_t *blk; unsigned off, nb; };   // exact-size heap block: off canary octets + nb value octets, nothing behind
static Slot g_slots[8][9];
static Slot &slot(unsigned off, unsigned nb) {
    Slot &s = g_slots[off][nb];
    if (!s.blk) { s.blk = (uint8_t *)malloc(off + nb); s.off = off; s.nb = nb; }
    return s;
}

static struct { int mode; unsigned idx, off; uint64_t v; } g_cur;
static std::string ser_acc(unsigned idx, unsigned off, uint64_t raw) { return vp::fmt("acc %s %u %llu\n", bf_accessors[idx].name, off, (unsigned long long)raw); }
static std::string ser_cur() {
    if (g_cur.mode == 0) return ser_acc(g_cur.idx, g_cur.off, g_cur.v);
    if (g_cur.mode == 1) return vp::fmt("swap %u %llu\n", bf_swappers[g_cur.idx].width, (unsigned long long)g_cur.v);
    return vp::fmt("inrange %s %lld\n", bf_ranges[g_cur.idx].name, (long long)g_cur.v);
}

// raw: the value in 64-bit two's complement (signed kinds: sign-extended, in range), floats: bit pattern
// fills the stack region the next call will use with a pattern, so that an accessor reading a local it did not initialise completely
// sees all-ones / alternating garbage instead of whatever the previous call happened to leave there
__attribute__((noinline)) static void poison_stack(uint8_t pat) {
    volatile uint8_t junk[768];
    for (size_t i = 0; i < sizeof junk; i++) junk[i] = pat;
}
static bool check_acc(unsigned idx, unsigned off, uint64_t raw) {
    const bf_accessor &a = bf_accessors[idx];
    g_cur.mode = 0; g_cur.idx = idx; g_cur.off = off; g_cur.v = raw;
    unsigned nb = a.width / 8;
    uint64_t low = raw & maskw(a.width);
    uint64_t canon = a.kind == 's' ? sext(low, a.width) : low;
    Slot &s = slot(off, nb);
    uint8_t expect[8];
    for (unsigned i = 0; i < nb; i++) {
        uint8_t o = (uint8_t)(low >> (8 * i));            // i-th least significant octet
        if (a.order == 'b') expect[nb - 1 - i] = o; else expect[i] = o;   // native == little on this host
    }
    uint8_t fillb = (uint8_t)(0xa5 ^ (uint8_t)low);
    memset(s.blk, fillb, off + nb);
    for (unsigned i = 0; i < nb; i++) s.blk[off + i] = (uint8_t)~expect[i];
    void *ret = a.set(s.blk + off, canon);
    auto F = [&](const char *key, const std::string &msg) { vp::fail(std::string(key) + ":" + a.name, msg, ser_acc(idx, off, raw)); return false; };
    bool ok = true;
    if (ret != s.blk + off + nb) ok = F("set-return", "set did not return the address just past the stored octets");
    if (memcmp(s.blk + off, expect, nb) != 0) ok = F("set-octets", "stored octets " + vp::hex(s.blk + off, nb) + " expected " + vp::hex(expect, nb));
    // what the target held before must not matter: all zeros, the image of the value with its top bit flipped (for floats: the same
    // magnitude with the other sign, e.g. +0.0 under -0.0), the value itself
    if (a.width > 24 || (raw & 3) == 0)
        for (int pre = 0; pre < 3 && ok; pre++) {
            for (unsigned i = 0; i < nb; i++) s.blk[off + i] = pre == 0 ? 0x00 : expect[i];
            if (pre == 1) s.blk[off + (a.order == 'b' ? 0 : nb - 1)] ^= 0x80;
            a.set(s.blk + off, canon);
            if (memcmp(s.blk + off, expect, nb) != 0) ok = F("set-octets-over-related-content", vp::fmt("target held %s before; stored octets ", pre == 0 ? "zeros" : pre == 1 ? "the value with its top bit flipped" : "the value itself") + vp::hex(s.blk + off, nb) + " expected " + vp::hex(expect, nb));
        }
    for (unsigned i = 0; i < off; i++) if (s.blk[i] != fillb) { ok = F("set-neighbour", "octet before the value changed"); break; }
    // load from the expected image (independent of what set wrote)
    memcpy(s.blk + off, expect, nb);
    poison_stack((uint8_t)(0xff ^ (uint8_t)(raw >> 56)));
    uint64_t got = a.ref(s.blk + off);
    if (got != canon) ok = F("ref-value", vp::fmt("loaded %llx expected %llx", (unsigned long long)got, (unsigned long long)canon));
    return ok;
}

static bool check_swap(unsigned idx, uint64_t v) {
    const bf_swapper &s = bf_swappers[idx];
    g_cur.mode = 1; g_cur.idx = idx; g_cur.v = v;
    v &= maskw(s.width);
    unsigned nb = s.width / 8;
    uint64_t want = 0;
    for (unsigned i = 0; i < nb; i++) want |= ((v >> (8 * i)) & 0xff) << (8 * (nb - 1 - i));
    uint64_t got = s.swap(v);
    bool ok = true;
    std::string rep = vp::fmt("swap %u %llu\n", s.width, (unsigned long long)v);
    if (got != want) { vp::fail(vp::fmt("swap-value:%u", s.width), vp::fmt("swap(%llx) = %llx expected %llx", (unsigned long long)v, (unsigned long long)got, (unsigned long long)want), rep); ok = false; }
    if (s.swap(got) != v) { vp::fail(vp::fmt("swap-involution:%u", s.width), "swap(swap(v)) != v", rep); ok = false; }
    return ok;
}

static bool check_range(unsigned idx, int64_t v) {
    const bf_range &r = bf_ranges[idx];
    g_cur.mode = 2; g_cur.idx = idx; g_cur.v = (uint64_t)v;
    // the argument must be representable in the parameter type
    if (r.argbits == 32) { if (r.kind == 'u') v = (int64_t)(uint32_t)v; else v = (int64_t)(int32_t)v; }
    bool want;
    if (r.kind == 'u') want = ((uint64_t)v >> r.width) == 0;
    else want = v >= -((int64_t)1 << (r.width - 1)) && v < ((int64_t)1 << (r.width - 1));
    bool got = r.inrange(v) != 0;
    if (got != want) { vp::fail(std::string("inrange:") + r.name, vp::fmt("inrange(%lld) = %d expected %d", (long long)v, got, want), vp::fmt("inrange %s %lld\n", r.name, (long long)v)); return false; }
    return true;
}

static bool nontrivial_value(uint64_t low, unsigned w) {
    unsigned nb = w / 8; bool distinct = true;
    for (unsigned i = 0; i < nb; i++) for (unsigned j = i + 1; j < nb; j++) if (((low >> (8 * i)) & 0xff) == ((low >> (8 * j)) & 0xff)) distinct = false;
    bool midtop = false;
    for (unsigned i = 1; i + 1 < nb; i++) if ((low >> (8 * i + 7)) & 1) midtop = true;
    return distinct || midtop || ((low >> (w - 1)) & 1);
}

static std::vector<uint64_t> wide_values(unsigned w, vp::Rng &rng, size_t nrand) {
    std::vector<uint64_t> v;
    unsigned nb = w / 8;
    const uint64_t bgs[3] = {0, ~0ull, 0xa5a5a5a5a5a5a5a5ull};
    for (unsigned lane = 0; lane < nb; lane++) for (unsigned o = 0; o < 256; o++) for (uint64_t bg : bgs)
        v.push_back((bg & ~(0xffull << (8 * lane))) | ((uint64_t)o << (8 * lane)));
    for (unsigned b = 0; b < w; b++) { v.push_back(1ull << b); v.push_back(~(1ull << b)); }
    uint64_t edges[] = {0, 1, maskw(w), maskw(w) >> 1, (maskw(w) >> 1) + 1, maskw(w) - 1, 0x0102030405060708ull, 0x8091a2b3c4d5e6f7ull};
    for (uint64_t e : edges) v.push_back(e);
    for (size_t i = 0; i < nrand; i++) v.push_back(rng.next());
    return v;
}

static void run() {
    auto &a = vp::args();
    vp::CaseScope scope(ser_cur);
    vp::Rng rng(a.seed * 31337 + a.shard);
#ifdef VP_FAST
    // thorough: all 2^32 values for the 32-bit accessors (unsanitized, value comparison + in-bounds canaries)
    vp::stats().rule = "enum(fast): all 2^32 values through the 18 32-bit accessors (u32/s32/f32 x b/l/n) at offset 1";
    vp::stats().exhaustive = true;
    uint64_t lo = (1ull << 32) / a.nshards * a.shard, hi = (a.shard + 1 == a.nshards) ? (1ull << 32) : (1ull << 32) / a.nshards * (a.shard + 1);
    for (unsigned idx = 0; idx < bf_accessor_count; idx++) {
        if (bf_accessors[idx].width != 32) continue;
        bool ok = true;
        for (uint64_t v = lo; v < hi && ok; v++) { ok = check_acc(idx, 1, bf_accessors[idx].kind == 's' ? sext(v, 32) : v); if ((v & 0xfffff) == 0) vp::alive(); }
        vp::count(hi - lo); vp::cls(std::string("all-32-bit:") + bf_accessors[idx].name, hi - lo);
    }
    for (uint64_t v = lo; v < hi; v += 65521) if (nontrivial_value(v, 32)) vp::nontrivial(v);
    for (uint64_t v = lo; v < hi; v++) { if (!check_swap(2, v)) break; if ((v & 0xfffff) == 0) vp::alive(); }
    vp::count(hi - lo);
    return;
#endif
    vp::stats().rule = vp::fmt("enum: all 126 bf_ref_*/bf_set_* accessors (builtin swap %s): every value for widths 16 and 24, every lane x octet value x 3 backgrounds + single bits + "
                               "edges + random for wider widths and floats (bit patterns incl. NaN payloads), alignment offsets 0..7, exact-size blocks; 7 swaps; 8 range predicates",
                               bf_builtin_swap ? "on" : "off");
    vp::stats().exhaustive = true;
    vp::stats().notes[bf_builtin_swap ? "config_builtin_swap" : "config_portable_swap"] = "exercised";
    size_t nrand = a.thorough() ? 600000 : 30000;
    unsigned work = 0;
    for (unsigned idx = 0; idx < bf_accessor_count; idx++) {
        const bf_accessor &acc = bf_accessors[idx];
        if (acc.width <= 24) {
            // all values; offset cycles through 0..7
            uint64_t n = 1ull << acc.width;
            for (uint64_t v = 0; v < n; v++) {
                if ((v >> 8) % a.nshards != a.shard) continue;
#ifdef VP_LIGHT
                if (acc.width == 24 && (v % 5) != 0 && (v & 0xff) != 0xff && (v & 0xff) != 0 && (v >> 16) != 0xff && (v >> 16) != 0x80 && (v >> 16) != 0x7f) continue;   // the additional build configurations sample the 24-bit values (all of them run in the main target)
#endif
                uint64_t raw = acc.kind == 's' ? sext(v, acc.width) : v;
                check_acc(idx, (unsigned)(v % 8), raw);
                vp::count();
                if (acc.width == 16 ? true : (v % 251 == 0)) { if (nontrivial_value(v, acc.width)) vp::nontrivial(vp::mix(v, idx)); }
            }
            vp::cls(std::string("all-values:") + acc.name, n / a.nshards);
        } else {
            if (work++ % a.nshards != a.shard) continue;
            for (uint64_t v : wide_values(acc.width, rng, nrand)) {
                uint64_t low = v & maskw(acc.width);
                uint64_t raw = acc.kind == 's' ? sext(low, acc.width) : low;
                unsigned off = (unsigned)(vp::mix(v, 3) % 8);
                check_acc(idx, off, raw);
                vp::count();
                if (nontrivial_value(low, acc.width)) vp::nontrivial(vp::mix(low, idx));
                VP_SAMPLE(ser_acc(idx, off, raw));
            }
            // every offset on a fixed pattern
            for (unsigned off = 0; off < 8; off++) { check_acc(idx, off, acc.kind == 's' ? sext(0x8192a3b4c5d6e7f8ull, acc.width) : (0x8192a3b4c5d6e7f8ull & maskw(acc.width))); vp::count(); }
            vp::cls(std::string("wide-values:") + acc.name);
        }
        if (vp::too_many_failures()) break;
    }
    if (a.shard == 0) {
        for (unsigned i = 0; i < bf_swapper_count; i++) {
            unsigned w = bf_swappers[i].width;
            if (w <= 24) for (uint64_t v = 0; v < (1ull << w); v += (w == 24 ? 7 : 1)) { check_swap(i, v); vp::count(); }
            for (uint64_t v : wide_values(w, rng, nrand / 4)) { check_swap(i, v); vp::count(); vp::nontrivial(vp::mix(v & maskw(w), 1000 + i)); }
            vp::cls("swaps");
        }
        for (unsigned i = 0; i < bf_range_count; i++) {
            const bf_range &r = bf_ranges[i];
            std::vector<int64_t> vals;
            int64_t top = (int64_t)1 << r.width, half = (int64_t)1 << (r.width - 1);
            for (int d = -2; d <= 2; d++) { vals.push_back(top + d); vals.push_back(half + d); vals.push_back(-half + d); vals.push_back(-top + d); vals.push_back(d); }
            for (unsigned b = 0; b < 64; b++) { vals.push_back((int64_t)(1ull << b)); vals.push_back((int64_t)(0 - (1ull << b))); vals.push_back((int64_t)((1ull << b) - 1)); }
            vals.push_back(INT64_MAX); vals.push_back(INT64_MIN); vals.push_back(INT32_MAX); vals.push_back(INT32_MIN); vals.push_back(-1);
            for (size_t k = 0; k < nrand / 4; k++) vals.push_back((int64_t)(rng.next() >> rng.below(40)) * (rng.chance(1, 2) ? 1 : -1));
            for (int64_t v : vals) { check_range(i, v); vp::count(); vp::nontrivial(vp::mix((uint64_t)v, 2000 + i)); }
            vp::cls("range-predicates");
        }
    }
}
static bool replay(const std::string &text) {
    vp::CaseScope scope(ser_cur);
    auto w = vp::split(vp::lines(text).at(0));
    if (w.size() == 4 && w[0] == "acc") {
        for (unsigned i = 0; i < bf_accessor_count; i++) if (w[1] == bf_accessors[i].name) return check_acc(i, (unsigned)atoi(w[2].c_str()) % 8, strtoull(w[3].c_str(), 0, 10));
    } else if (w.size() == 3 && w[0] == "swap") {
        for (unsigned i = 0; i < bf_swapper_count; i++) if ((unsigned)atoi(w[1].c_str()) == bf_swappers[i].width) return check_swap(i, strtoull(w[2].c_str(), 0, 10));
    } else if (w.size() == 3 && w[0] == "inrange") {
        for (unsigned i = 0; i < bf_range_count; i++) if (w[1] == bf_ranges[i].name) return check_range(i, strtoll(w[2].c_str(), 0, 10));
    }
    return false;
}
VP_MAIN(run, replay)
