// C10 — persistent store/validate/fetch round-trips and stays inside its region.
#include "props/C10.hpp"
using namespace ps;

struct Case { Config cfg; uint64_t seed; };
static Case g_cur;
static std::string serc(const Case &c) { return ser(c.cfg) + vp::fmt(" seed %llu\n", (unsigned long long)c.seed); }
static void F(const Case &c, const std::string &key, const std::string &msg) { vp::fail(key, msg + " [" + ser(c.cfg) + "]", serc(c)); }

static const char *acc_name(PersistentAccess a) {
    switch (a) { case PERSISTENT_ACCESS_SUCCESS: return "SUCCESS"; case PERSISTENT_ACCESS_INVALID_DATA: return "INVALID_DATA"; case PERSISTENT_ACCESS_IO_ERROR: return "IO_ERROR"; case PERSISTENT_ACCESS_ADDRESS_OUT_OF_RANGE: return "OUT_OF_RANGE"; }
    return "?";
}

// run one library call under the medium-call budget; returns false on "no progress"
#define CALL(c, what, expr)                                                                                          \
    do {                                                                                                             \
        M().clear_run();                                                                                             \
        if (VP_BUDGET(64 + 8 * (c).cfg.size)) { expr; vp::budget().armed = false; }                                  \
        else { F(c, std::string(what) + ":no-progress", "medium called more than " + std::to_string(64 + 8 * (c).cfg.size) + " times without completion"); return; } \
        vp::count();                                                                                                 \
        if (M().outside) { F(c, std::string(what) + ":access-outside-region", vp::fmt("medium access outside [%u,%u)", M().lo, M().hi)); return; } \
    } while (0)

static bool outside_untouched(const Case &c, const uint8_t *snapshot) {
    // (every access goes through the logging callbacks, which flag anything outside the region; this additionally looks at the neighbourhood)
    size_t from = M().lo > 64 ? M().lo - 64 : 0, to = std::min<size_t>(MSIZE, (size_t)M().hi + 64);
    for (size_t i = from; i < to; i++) if ((i < M().lo || i >= M().hi) && M().mem[i] != snapshot[i]) { F(c, "medium-outside-region-changed", vp::fmt("octet %zu outside the region changed", i)); return false; }
    return true;
}

static void battery(const Case &c) {
    g_cur = c;
    const Config &cfg = c.cfg;
    vp::Rng rng(c.seed ^ vp::fnv(ser(cfg)));
    M().reset_pattern((size_t)cfg.place + cfg.cssize() + cfg.size + 128);
    static uint8_t snapshot[MSIZE];
    { static bool once = false; if (!once) { once = true; for (size_t i = 0; i < MSIZE; i++) snapshot[i] = (uint8_t)(0x30 + i * 7); } }
    const bool large = cfg.size > 64;
    Instance in(cfg);
    PersistentAccess rc;
    if (in.st.data.address != M().origin + cfg.data_addr() || in.st.checksum.address != M().origin + cfg.place || in.st.checksum.size != cfg.cssize()) { F(c, "setup:addresses", "data/checksum address not as configured"); return; }
    Bytes model(cfg.size);
    for (auto &b : model) b = rng.byte();
    // ---- full store
    { vp::Block img(cfg.size); memcpy(img.p, model.data(), cfg.size);
      CALL(c, "store", rc = persistent_store(&in.st, img.p));
      if (rc != PERSISTENT_ACCESS_SUCCESS) { F(c, "store:failed", acc_name(rc)); return; } }
    auto check_state = [&](const char *after) -> bool {
        if (memcmp(M().mem + cfg.data_addr(), model.data(), cfg.size) != 0) { F(c, std::string(after) + ":medium-data", "data image on the medium differs from the model"); return false; }
        if (medium_sum(cfg) != ref_sum(cfg, model.data())) { F(c, std::string(after) + ":medium-checksum", vp::fmt("checksum on the medium %x, algorithm over the image gives %x", medium_sum(cfg), ref_sum(cfg, model.data()))); return false; }
        if (!outside_untouched(c, snapshot)) return false;
        PersistentAccess v;
        M().clear_run();
        if (VP_BUDGET(64 + 8 * cfg.size)) { v = persistent_validate(&in.st); vp::budget().armed = false; } else { F(c, "validate:no-progress", "validate keeps calling the medium"); return false; }
        vp::count();
        if (M().outside) { F(c, "validate:access-outside-region", "access outside the region"); return false; }
        if (v != PERSISTENT_ACCESS_SUCCESS) { F(c, std::string(after) + ":validate", std::string("validate after a successful store: ") + acc_name(v)); return false; }
        vp::Block out(cfg.size, 0xee);
        M().clear_run();
        PersistentAccess f = persistent_fetch(out.p, &in.st);
        vp::count();
        if (M().outside) { F(c, "fetch:access-outside-region", "access outside the region"); return false; }
        if (f != PERSISTENT_ACCESS_SUCCESS || memcmp(out.p, model.data(), cfg.size) != 0) { F(c, std::string(after) + ":fetch", "fetch does not return the stored image"); return false; }
        return true;
    };
    if (!check_state("store")) return;
    // ---- partial stores: every (offset, length) incl. refused ones
    struct OL { size_t off, len; };
    std::vector<OL> ols;
    if (!large) { for (size_t off = 0; off <= cfg.size + 1; off++) for (size_t len = 0; len + off <= cfg.size + 2 && len <= cfg.size + 1; len++) ols.push_back({off, len}); }
    else {
        // large images: offsets and lengths at the edges, the middle and the 2^8/2^16 boundaries
        std::vector<size_t> offs = {0, 1, 255, 256, cfg.size / 2, cfg.size - 1, cfg.size, cfg.size + 1};
        if (cfg.size > 65537) { offs.push_back(65535); offs.push_back(65536); }
        for (size_t off : offs) for (long d : {-2L, -1L, 0L, 1L}) { long rest = (long)cfg.size - (long)off; for (long len : {0L, 1L, 256L, rest + d}) if (len >= 0) ols.push_back({off, (size_t)len}); }
    }
    ols.push_back({SIZE_MAX, 2}); ols.push_back({SIZE_MAX - 1, 3}); ols.push_back({(size_t)1 << 32, 1}); ols.push_back({1, SIZE_MAX}); ols.push_back({SIZE_MAX, SIZE_MAX});
    for (auto &ol : ols) {
        bool inrange = ol.off <= cfg.size && ol.len <= cfg.size - ol.off;
        size_t blen = inrange ? ol.len : std::min<size_t>(ol.len, 4);
        vp::Block src(blen);
        for (size_t i = 0; i < blen; i++) src.p[i] = rng.byte();
        const uint8_t *from = src.p;
        if (in.aux && inrange && ol.len && cfg.aux >= (long)ol.len && (ol.off + ol.len) % 3 == 0) { memcpy(in.aux, src.p, ol.len); from = in.aux; vp::cls("part-store-from-the-aux-buffer"); }   // the caller staged the data in the instance's own scratch buffer
        CALL(c, "store_part", rc = persistent_store_part(&in.st, from, ol.off, ol.len));
        if (!inrange) {
            if (rc == PERSISTENT_ACCESS_SUCCESS) { F(c, "store_part:beyond-size-accepted", vp::fmt("offset %zu length %zu accepted", ol.off, ol.len)); return; }
            if (!M().log.empty()) { F(c, "store_part:refused-but-medium-touched", vp::fmt("offset %zu length %zu", ol.off, ol.len)); return; }
            vp::cls("part-store-refused");
            continue;
        }
        if (rc != PERSISTENT_ACCESS_SUCCESS) { F(c, "store_part:failed", vp::fmt("offset %zu length %zu: %s", ol.off, ol.len, acc_name(rc))); return; }
        memcpy(model.data() + ol.off, src.p, ol.len);
        if (!check_state("store_part")) return;
        if (ol.off > 0 && ol.off + ol.len < cfg.size) vp::cls("part-store-interior"); else vp::cls("part-store-edge");
    }
    // ---- partial fetches
    for (auto &ol : ols) {
        bool inrange = ol.off <= cfg.size && ol.len <= cfg.size - ol.off;
        size_t blen = inrange ? ol.len : 4;
        vp::Block dst(blen, 0xee);
        CALL(c, "fetch_part", rc = persistent_fetch_part(dst.p, &in.st, ol.off, ol.len));
        if (!inrange) {
            if (rc == PERSISTENT_ACCESS_SUCCESS) { F(c, "fetch_part:beyond-size-accepted", vp::fmt("offset %zu length %zu accepted", ol.off, ol.len)); return; }
            if (!M().log.empty()) { F(c, "fetch_part:refused-but-medium-touched", vp::fmt("offset %zu length %zu", ol.off, ol.len)); return; }
            continue;
        }
        if (rc != PERSISTENT_ACCESS_SUCCESS || (ol.len && memcmp(dst.p, model.data() + ol.off, ol.len) != 0)) { F(c, "fetch_part:wrong", vp::fmt("offset %zu length %zu", ol.off, ol.len)); return; }
    }
    // ---- single-octet alterations of the region
    for (uint32_t pos = M().lo; pos < M().hi; pos++)
        for (uint8_t delta : {(uint8_t)1, (uint8_t)0x80, (uint8_t)0xff}) {
            if (large && !(pos - M().lo < 8 || M().hi - pos <= 8 || (pos - M().lo) % (cfg.size / 24 + 1) == 0 || ((pos - cfg.data_addr()) & 0xffff) < 2)) continue;   // large images: sampled positions incl. both ends and 2^16 multiples
            uint8_t saved = M().mem[pos];
            M().mem[pos] = (uint8_t)(saved ^ delta);
            bool consistent = medium_consistent(cfg);
            PersistentAccess v;
            CALL(c, "validate", v = persistent_validate(&in.st));
            if (consistent && v != PERSISTENT_ACCESS_SUCCESS) { F(c, "alteration:false-alarm", vp::fmt("octet %u ^ %02x: checksum still matches but validate says %s", pos, delta, acc_name(v))); return; }
            if (!consistent && v != PERSISTENT_ACCESS_INVALID_DATA) { F(c, "alteration:not-detected", vp::fmt("octet %u ^ %02x: validate says %s", pos, delta, acc_name(v))); return; }
            M().mem[pos] = saved;
            vp::cls(consistent ? "alteration-undetectable-by-checksum" : "alteration-detected");
        }
    // ---- storing over a medium whose data no longer matches its checksum cell, and storing an image with the same checksum as the one on the medium:
    //      after a successful store the medium holds the stored image, whatever was there before
    {
        size_t positions[3] = {0, cfg.size / 2, cfg.size - 1};
        for (size_t pi = 0; pi < 3; pi++) {
            M().mem[cfg.data_addr() + positions[pi]] ^= (uint8_t)(0x21 + pi);        // out-of-band alteration of a data octet, left in place
            vp::Block img(cfg.size); memcpy(img.p, model.data(), cfg.size);
            CALL(c, "store", rc = persistent_store(&in.st, img.p));                     // the same image again
            if (rc != PERSISTENT_ACCESS_SUCCESS) { F(c, "store:failed", acc_name(rc)); return; }
            if (!check_state("store-over-altered-medium")) return;
            vp::cls("store-over-altered-medium");
        }
        {
            // a partial store of no octets at all is still a store: afterwards the checksum on the medium matches the data on the medium
            M().mem[cfg.data_addr() + cfg.size / 2] ^= 0x44; model[cfg.size / 2] ^= 0x44;           // out of band: the model follows the medium, the checksum cell does not
            uint8_t none = 0;
            CALL(c, "store_part", rc = persistent_store_part(&in.st, &none, cfg.size / 2, 0));
            if (rc != PERSISTENT_ACCESS_SUCCESS) { F(c, "store_part:failed", std::string("empty partial store: ") + acc_name(rc)); return; }
            if (!check_state("empty-store_part-over-altered-medium")) return;
            vp::cls("empty-partial-store-over-altered-medium");
        }
        if (cfg.size >= 2) {
            // a different image with the same trivial sum (two octets exchanged) resp. an image differing in one octet
            Bytes other = model;
            size_t i = 0, j = cfg.size - 1;
            while (j > i && other[i] == other[j]) j--;
            if (j > i) std::swap(other[i], other[j]); else other[0] ^= 0x5a;
            vp::Block img(cfg.size); memcpy(img.p, other.data(), cfg.size);
            CALL(c, "store", rc = persistent_store(&in.st, img.p));
            if (rc != PERSISTENT_ACCESS_SUCCESS) { F(c, "store:failed", acc_name(rc)); return; }
            model = other;
            if (!check_state("store-permuted-image")) return;
            vp::cls("store-image-with-same-octet-sum");
        }
    }
    // ---- reset
    for (uint8_t fill : {(uint8_t)0x00, (uint8_t)0xff, (uint8_t)0x5a}) {
        CALL(c, "reset", rc = persistent_reset(&in.st, fill));
        if (rc != PERSISTENT_ACCESS_SUCCESS) { F(c, "reset:failed", acc_name(rc)); return; }
        for (uint32_t i = M().lo; i < M().hi; i++) if (M().mem[i] != fill) { F(c, "reset:region-not-filled", vp::fmt("octet %u is %02x after reset(%02x)", i, M().mem[i], fill)); return; }
        if (!outside_untouched(c, snapshot)) return;
    }
    // ---- store again after reset (checks that reset leaves a usable instance)
    { vp::Block img(cfg.size); for (size_t i = 0; i < cfg.size; i++) model[i] = img.p[i] = rng.byte();
      CALL(c, "store", rc = persistent_store(&in.st, img.p));
      if (rc != PERSISTENT_ACCESS_SUCCESS) { F(c, "store:failed", acc_name(rc)); return; }
      check_state("store"); }
}

static void large_configs(bool thorough);
static void run() {
    auto &a = vp::args();
    vp::CaseScope scope([] { return serc(g_cur); });
    size_t maxsize = a.thorough() ? 64 : 24;
    vp::stats().rule = vp::fmt("enum: data size 1..%zu x placement {0,1,5,40} x {default trivial sum, CRC-16/ARC, 32-bit sum} x aux buffer {none, sizes 0..size+1} x order of place/sum calls, with the medium mapped so that the instance ends at address 0xffffffff, and with instances copied away from where they were configured (incl. instances first configured with the checksum of the other width and then re-configured); per configuration: "
                               "full store, every (offset,length) partial store/fetch incl. refused and arithmetic-overflow pairs, every single-octet alteration x 3 deltas, stores over a medium altered out of band and of an image with the same octet sum as the stored one, reset with 3 fill values; "
                               "every medium access is logged and checked against the instance's region; medium-call budget per operation; plus data sizes 255..257, 65535..65537, 70000 (thorough: 2^17+-1) with aux sizes around 2^8/2^16 and sampled part accesses/alterations", maxsize);
    vp::stats().exhaustive = true;
    uint64_t idx = 0;
    for (size_t size = 1; size <= maxsize; size++)
        for (uint32_t place : {0u, 1u, 5u, 40u})
            for (int cs = 0; cs < 3; cs++)
                for (long aux = -1; aux <= (long)size + 1; aux++)
                    for (int order = 0; order < (cs ? 3 : 2); order++) {
                        if (idx++ % a.nshards != a.shard) continue;
                        Case c{{size, place, cs, aux, order}, a.seed};
                        if (aux == 0 && vp::excluded("validate:no-progress")) { vp::stats().excluded++; continue; }
                        size_t before = vp::stats().failures.size();
                        battery(c);
                        (void)before;
                        if ((aux >= 0 && (size_t)aux < size) || place != 0) vp::nontrivial(vp::fnv(ser(c.cfg)));
                        vp::cls(aux < 0 ? "aux-none" : (size_t)aux < size ? "aux-smaller-than-data" : "aux-covers-data");
                        if (vp::want_sample()) vp::sample(serc(c));
                        if (vp::too_many_failures()) return;
                    }
    // the same battery with the medium mapped at the top of the 32-bit address space: the instance's last octet has the address 0xffffffff
    for (size_t size = 1; size <= maxsize; size++) for (int cs = 0; cs < 3; cs++) for (long aux : {-1L, 0L, 1L, 3L, (long)size, (long)size + 1}) {
        if (idx++ % a.nshards != a.shard) continue;
        Case c{{size, 5, cs, aux, (int)(size % 2)}, a.seed}; c.cfg.top = 1;
        if (aux == 0 && vp::excluded("validate:no-progress")) { vp::stats().excluded++; continue; }
        battery(c);
        vp::nontrivial(vp::fnv(ser(c.cfg))); vp::cls("medium-at-the-top-of-the-address-space");
        if (vp::too_many_failures()) return;
    }
    // instances that were configured in one place and are used from another
    for (size_t size = 1; size <= maxsize; size += 3) for (int cs = 0; cs < 3; cs++) for (long aux : {-1L, 0L, 2L, (long)size}) {
        if (idx++ % a.nshards != a.shard) continue;
        Case c{{size, 1, cs, aux, (int)(size % 3 == 0 ? 2 : size % 2)}, a.seed}; c.cfg.moved = 1;
        if (c.cfg.order == 2 && cs == 0) c.cfg.order = 0;
        if (aux == 0 && vp::excluded("validate:no-progress")) { vp::stats().excluded++; continue; }
        battery(c);
        vp::nontrivial(vp::fnv(ser(c.cfg))); vp::cls("instance-used-from-another-place-than-it-was-configured-in");
        if (vp::too_many_failures()) return;
    }
    large_configs(a.thorough());
}
// data portions at the 2^8 / 2^16 / 2^17 boundaries (a length or count kept in 8 or 16 bits shows here)
static void large_configs(bool thorough) {
    auto &a = vp::args();
    uint64_t idx = 0;
    std::vector<size_t> sizes = {255, 256, 257, 65535, 65536, 65537, 70000};
    if (thorough) { sizes.push_back(131071); sizes.push_back(131072); sizes.push_back(131073); }
    for (size_t size : sizes) for (uint32_t place : {0u, 5u, 65533u, 65536u}) for (int cs = 0; cs < 3; cs++) {
        if ((uint64_t)place + 4 + size > MSIZE) continue;
        if (place > 5 && size > 300) continue;   // placements across 2^16 with small images
        std::vector<long> auxes = {-1, 1, 255, 256, 4096, 65535, 65536, 65537, (long)size, (long)size + 1};
        for (long aux : auxes) {
            if (aux > (long)size + 1) continue;
            if (idx++ % a.nshards != a.shard) continue;
            if (!thorough && size > 300 && (idx / a.nshards) % 3 != 0) continue;   // quick: a third of the large grid per run
            Case c{{size, place, cs, aux, (int)(idx & 1)}, a.seed};
            battery(c);
            vp::nontrivial(vp::fnv(ser(c.cfg))); vp::cls("large-image");
            if (vp::want_sample()) vp::sample(serc(c));
            if (vp::too_many_failures()) return;
        }
    }
}
static bool replay(const std::string &text) {
    auto w = vp::split(vp::lines(text).at(0));
    Case c;
    if (!parse_cfg(w, c.cfg) || w.size() < 8) return false;
    c.seed = strtoull(w[7].c_str(), 0, 10);
    vp::CaseScope scope([] { return serc(g_cur); });
    battery(c);
    return vp::stats().failures.empty();
}
VP_MAIN(run, replay)
