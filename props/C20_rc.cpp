// C20 — rapidcheck: random trees (depth <= 8, <= 200 nodes) with random renderings.
#include "support/rc.hpp"
#include "props/C20.hpp"
using namespace c20;

struct Case { Tree tree; std::vector<unsigned> choices; std::string text; };

static rc::Gen<std::string> genSymbol() {
    return rc::gen::exec([]() {
        std::string s(1, *rc::gen::elementOf(std::string(SYMINIT)));
        size_t n = *vprc::uni<size_t>(0, 6);
        static const std::string rest = std::string(SYMINIT) + "0123456789-";
        for (size_t i = 0; i < n; i++) s += *rc::gen::elementOf(rest);
        return s;
    });
}
static rc::Gen<Tree> genTree(int depth, int budget) {
    return rc::gen::exec([depth, budget]() -> Tree {
        int k = *rc::gen::weightedElement<int>({{3, 0}, {3, 1}, {depth > 0 && budget > 1 ? 4 : 0, 2}, {1, 3}});
        if (k == 0) return Tree::symbol(*genSymbol());
        if (k == 1) return Tree::integer(*rc::gen::weightedOneOf<uint64_t>({{3, vprc::uni<uint64_t>(0, 300)}, {2, rc::gen::arbitrary<uint64_t>()}, {1, rc::gen::element<uint64_t>(0, 9, 10, 15, 16, 255, 256, 0xABCDEFull, 0xffffffffffffffffull, 9999999999999999999ull)}}));
        if (k == 3) return Tree::list();
        size_t n = *rc::gen::weightedOneOf<size_t>({{9, vprc::uni<size_t>(0, (size_t)std::min(6, budget - 1))}, {1, vprc::uni<size_t>(0, (size_t)std::max(1, budget - 1))}});
        std::vector<Tree> items;
        int left = budget - 1;
        for (size_t i = 0; i < n && left > 0; i++) { Tree c = *genTree(depth - 1, std::max(1, left / (int)(n - i))); left -= (int)c.nodes(); items.push_back(std::move(c)); }
        return Tree::list(std::move(items));
    });
}

static void render(const Tree &t, const std::vector<unsigned> &ch, size_t &ci, std::string &out) {
    static const char *GAPS[] = {" ", "\t", "\n", "  ", " \n\t", "\r\n", "\f", "\v "};
    auto pick = [&](unsigned m) { unsigned v = ci < ch.size() ? ch[ci] : 0; ci++; return v % m; };
    auto gap = [&](bool needed) { unsigned p = pick(4); if (needed || p) out += GAPS[pick(8)]; };
    if (t.kind == Tree::SYM) { out += t.sym; return; }
    if (t.kind == Tree::INT) {
        unsigned st = pick(4);
        if (st == 0 && t.val >= 10000000000000000000ull) st = 1;   // 20 decimal digits: outside the asserted integer range, render in hex
        if (st == 0) { out += std::to_string(t.val); return; }
        char buf[32]; snprintf(buf, sizeof buf, st == 1 ? "#x%llx" : "#x%llX", (unsigned long long)t.val);
        std::string s = buf;
        if (st == 3) for (size_t i = 2; i < s.size(); i++) if (pick(2)) s[i] = (char)tolower((unsigned char)s[i]);
        out += s; return;
    }
    out += "(";
    for (size_t i = 0; i < t.items.size(); i++) {
        bool prev_atom = i > 0 && t.items[i - 1].kind != Tree::LIST, cur_atom = t.items[i].kind != Tree::LIST;
        gap(i > 0 && prev_atom && cur_atom);
        render(t.items[i], ch, ci, out);
    }
    gap(false);
    out += ")";
}
static bool equal(const Tree &a, const Tree &b) {
    if (a.kind != b.kind) return false;
    if (a.kind == Tree::SYM) return a.sym == b.sym;
    if (a.kind == Tree::INT) return a.val == b.val;
    if (a.items.size() != b.items.size()) return false;
    for (size_t i = 0; i < a.items.size(); i++) if (!equal(a.items[i], b.items[i])) return false;
    return true;
}
static std::string ser(const Case &c) { return "sx " + vp::hex(c.text.data(), c.text.size()) + "\n# " + vp::json_escape(c.text.substr(0, 300)) + "\n"; }

static std::string oracle(const Case &c) {
    vp::count();
    RefResult r = reference(c.text);
    if (r.v != ACCEPT || !equal(r.tree, c.tree)) return "harness:reference-does-not-invert-rendering";
    Outcome o = check_input(c.text);
    vp::cls("random-trees");
    if (c.tree.has_nested_empty()) vp::cls("tree-with-nested-empty-list");
    if (c.tree.depth() >= 3) vp::cls("tree-depth>=3");
    if (o.nontrivial) vp::nontrivial(vp::fnv(c.text));
    VP_SAMPLE(vp::json_escape(c.text.substr(0, 160)));
    return o.key;
}

static void run() {
    vp::stats().rule = "rc: random trees (depth <= 8, up to ~200 nodes; symbols over the whole symbol alphabet, integers incl. 64-bit edges, empty lists anywhere) rendered with random inter-token "
                       "whitespace (blank, tab, newline, CR, FF, VT) and random decimal / #x lower / upper / mixed-case digits, leading and trailing whitespace";
    auto gen = rc::gen::exec([]() {
        Case c;
        c.tree = *genTree(8, *rc::gen::weightedOneOf<int>({{8, vprc::uni<int>(1, 200)}, {1, vprc::uni<int>(200, 1500)}}));
        c.choices = *rc::gen::container<std::vector<unsigned>>(rc::gen::arbitrary<unsigned>());
        size_t ci = 0; std::string body;
        render(c.tree, c.choices, ci, body);
        unsigned lead = ci < c.choices.size() ? c.choices[ci] % 3 : 0;
        c.text = std::string(lead, lead == 1 ? ' ' : '\n') + body + (lead == 2 ? " \t" : "");
        return c;
    });
    vprc::check<Case>("reader inverts printing", gen, oracle, ser);
}
static bool replay(const std::string &text) {
    auto w = vp::split(vp::lines(text).at(0));
    if (w.empty() || w[0] != "sx") return false;
    std::string in;
    if (w.size() >= 2) { auto b = vp::unhex(w[1]); in.assign(b.begin(), b.end()); }
    Outcome o = check_input(in);
    if (!o.key.empty()) printf("[replay] key=%s %s\n", o.key.c_str(), o.msg.c_str());
    return o.key.empty();
}
VP_MAIN(run, replay)
