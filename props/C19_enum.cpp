// C19 — explicit-state exploration of (implementation state, model queue) pairs.
#include "props/C19.hpp"
#include <unordered_map>
using namespace c19;

template <class R, class T> static void explore(const Api<R, T> &api, int type, size_t cap) {
    struct Node { Ring<R, T> ring; Model m; int parent; Op via; bool wrapped; };
    std::vector<Node *> nodes;
    std::unordered_map<std::string, int> seen;
    auto key = [&](const Ring<R, T> &rg, const Model &m) {
        std::string k = vp::fmt("%zu/%zu/%d|", rg.r.head, rg.r.tail, (int)rg.r.override_if_full);
        for (size_t i = 0; i < cap; i++) k += vp::fmt("%lld,", (long long)from_elem<T>(rg.mem[i]));
        k += "|";
        for (auto v : m.q) k += vp::fmt("%lld,", (long long)v);
        k += m.ovr ? "o" : "-";
        return k;
    };
    auto path = [&](int idx, const Op *extra) {
        Case c{type, cap, {}, {}};
        std::vector<Op> rev;
        for (int i = idx; i > 0; i = nodes[i]->parent) rev.push_back(nodes[i]->via);
        c.ops.assign(rev.rbegin(), rev.rend());
        if (extra) c.ops.push_back(*extra);
        return c;
    };
    Model m0; m0.cap = cap;
    nodes.push_back(new Node{Ring<R, T>(api, cap), m0, -1, Op{0, 0}, false});
    seen[key(nodes[0]->ring, m0)] = 0;
    std::vector<Op> alpha = {{PUT, type == 3 ? 7 : 1}, {PUT, type == 3 ? 20 : 2}, {GET, 0}, {CLEAR, 0}, {OVR_ON, 0}, {OVR_ON, 2}, {OVR_OFF, 0}};   // the double ring is explored with the two zeros (-0.0, +0.0): equal as numbers, different as elements
    uint64_t states = 1, transitions = 0;
    for (size_t i = 0; i < nodes.size() && !vp::too_many_failures(); i++) {
        for (const Op &op : alpha) {
            Node *n = nodes[i];
            Ring<R, T> r2(n->ring); Model m2 = n->m;
            Case cur;
            vp::CaseScope scope([&] { return serialise(path((int)i, &op)); });
            std::string res = r2.step(m2, op);
            transitions++; vp::count();
            // non-trivial: physically wrapped or full queue, eviction, drop on full, get on empty, capacity 1
            bool physwrap = n->ring.r.tail != cap && n->ring.r.tail >= n->ring.r.head;
            bool evict = op.kind == PUT && n->m.q.size() == cap && n->m.ovr;
            bool drop = op.kind == PUT && n->m.q.size() == cap && !n->m.ovr;
            if (physwrap) vp::cls("pre-state-wrapped-or-full");
            if (evict) vp::cls("put-evicts-oldest");
            if (drop) vp::cls("put-dropped-on-full");
            if (op.kind == GET && n->m.q.empty()) vp::cls("get-on-empty");
            if (physwrap || evict || drop || cap == 1) vp::nontrivial(vp::mix(vp::mix(vp::fnv(key(n->ring, n->m)), (uint64_t)op.kind), (uint64_t)op.v + 16 * type));
            if (vp::want_sample()) vp::sample(serialise(path((int)i, &op)));
            if (!res.empty()) { vp::fail(res, "ring buffer deviates from the queue model", serialise(path((int)i, &op))); continue; }
            std::string k = key(r2, m2);
            if (!seen.count(k)) {
                seen[k] = (int)nodes.size();
                nodes.push_back(new Node{r2, m2, (int)i, op, false});
                states++;
            }
        }
    }
    vp::stats().numbers["states"] += states;
    vp::stats().numbers["transitions"] += transitions;
    for (auto *n : nodes) delete n;
}

static void large_capacities(bool thorough);
static void run() {
    auto &a = vp::args();
    size_t maxcap = a.thorough() ? 6 : 4;
    vp::stats().rule = vp::fmt("enum: closure of all (implementation state, model queue) pairs for capacities 1..%zu over put(1), put(2), get, clear, override on/off "
                               "for octet_ring and for uint32_t/int16_t/double/`uint8_t *` rings instantiated from the macros (the double ring carries negative and fractional values); all observers and both iterators after every transition; scripted wrap/evict/clear phases at every capacity 5..300 (thorough 1100), 2^9/2^10/2^12 +-1, 255..257, 65535..65537, 70000 (thorough: up to 200000)", maxcap);
    vp::stats().exhaustive = true;
    unsigned idx = 0;
    for (int type = 0; type < 5; type++)
        for (size_t cap = 1; cap <= maxcap; cap++) {
            if (idx++ % a.nshards != a.shard) continue;
            if (type == 0) explore(C19_API(octet_ring, uint8_t), 0, cap);
            if (type == 1) explore(C19_API(u32_ring, uint32_t), 1, cap);
            if (type == 2) explore(C19_API(s16_ring, int16_t), 2, cap);
            if (type == 3) explore(C19_API(f64_ring, double), 3, cap);
            if (type == 4) explore(C19_API(ptr_ring, uint8_t *), 4, cap);
        }
    large_capacities(a.thorough());
}
// large capacities (2^8 and 2^16 boundaries): scripted bulk phases with a full observation after each phase
static void large_capacities(bool thorough) {
    auto &a = vp::args();
    unsigned idx = 1000;
    std::vector<size_t> caps = {255, 256, 257, 65535, 65536, 65537, 70000};
    for (size_t c = 5; c <= (thorough ? 1100u : 300u); c++) if (c < 255 || c > 257) caps.push_back(c);   // every capacity, not only the powers of two and their neighbours
    for (size_t c : {511u, 512u, 513u, 1023u, 1024u, 1025u, 4095u, 4096u, 4097u}) caps.push_back(c);
    if (thorough) { caps.push_back(131072); caps.push_back(200000); }
    for (int type = 0; type < 5; type++) for (size_t cap : caps) {
        if (idx++ % a.nshards != a.shard) continue;
        Case c{type, cap, {}, {}};
        c.phases = {{PUT, cap - cap / 70}, {GET, cap - cap / 35}, {PUT, cap / 50 + 3}, {OVR_ON, 1}, {PUT, cap + 7}, {GET, 5}, {OVR_OFF, 1}, {PUT, 9}, {CLEAR, 1}, {PUT, 3}, {GET, 4}};
        vp::CaseScope scope([&] { return serialise(c); });
        std::string r = run_case(c);
        vp::count(c.phases.size()); vp::cls("large-capacity-scenarios"); vp::nontrivial(vp::mix(cap, type + 9000));
        if (!r.empty()) vp::fail(r, vp::fmt("ring buffer of capacity %zu deviates from the queue model", cap), serialise(c));
        if (vp::want_sample()) vp::sample(serialise(c));
    }
}
static bool replay(const std::string &text) {
    Case c;
    if (!parse(text, c)) return false;
    vp::CaseScope scope([&] { return serialise(c); });
    std::string r = run_case(c);
    if (!r.empty()) printf("[replay] key=%s\n", r.c_str());
    return r.empty();
}
VP_MAIN(run, replay)
