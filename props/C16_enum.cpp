// C16 — CRC-16/ARC against the bit-serial reference.
#include "shims/crc_callers.h"
#include <sys/mman.h>
#include "support/vp.hpp"
#include "support/ufw.hpp"
#include "model/crc16.hpp"
#include <ufw/crc/crc16-arc.h>

static std::string ser(uint16_t st, const uint8_t *p, size_t n, size_t split) { return vp::fmt("crc %u %s %zu\n", st, n ? vp::hex(p, n).c_str() : "-", split); }

// one buffer: whole, split at `split`, and (even length) the word variant
static bool check_buffer(uint16_t st, const uint8_t *p, size_t n, size_t split, bool record) {
    vp::Block blk(n);   // exact-size copy: any over-read is an ASan report
    if (n) memcpy(blk.p, p, n);
    uint16_t want = ref::crc16_arc(st, p, n);
    uint16_t got = ufw_crc16_arc(st, blk.p, n);
    bool ok = true;
    if (got != want) { ok = false; if (record) vp::fail("octets:value", vp::fmt("crc(%04x, %zu octets) = %04x, reference %04x", st, n, got, want), ser(st, p, n, split)); }
    uint16_t a = ufw_crc16_arc(st, blk.p, split);
    uint16_t b = ufw_crc16_arc(a, blk.p + split, n - split);
    if (b != want) { ok = false; if (record) vp::fail("octets:concatenation", "continuing over the second part differs from the whole", ser(st, p, n, split)); }
    if (n) {
        // the same call again after the buffer was changed in place (identical arguments): the result follows the content, and
        // the same buffer one octet further up in memory (odd start address, exact end)
        size_t k = split < n ? split : n - 1;
        uint8_t saved = blk.p[k];
        blk.p[k] = (uint8_t)(saved ^ 0x5a);
        std::vector<uint8_t> q(p, p + n); q[k] = blk.p[k];
        uint16_t want2 = ref::crc16_arc(st, q.data(), n), got2 = ufw_crc16_arc(st, blk.p, n);
        blk.p[k] = saved;
        if (got2 != want2) { ok = false; if (record) vp::fail("octets:after-in-place-change", vp::fmt("second call with identical arguments after octet %zu was changed in place: %04x, reference %04x", k, got2, want2), ser(st, p, n, split)); }
        vp::Block odd(n + 1);
        memcpy(odd.p + 1, p, n);
        uint16_t got3 = ufw_crc16_arc(st, odd.p + 1, n);
        if (got3 != want) { ok = false; if (record) vp::fail("octets:odd-address", vp::fmt("buffer of %zu octets at an odd address: %04x, reference %04x", n, got3, want), ser(st, p, n, split)); }
        if (st == 0 && ufw_buffer_crc16_arc(odd.p + 1, n) != want) { ok = false; if (record) vp::fail("octets:odd-address", "ufw_buffer_crc16_arc at an odd address", ser(st, p, n, split)); }
    }
    if (n && ((n + split) % 5 == 0 || n > 30000)) {
        // the buffer in read-only memory (a firmware image in flash, a file mapped read-only)
        vp::RoBlock ro(p, n);
        if (ro.p) {
            if (ufw_crc16_arc(st, ro.p, n) != want) { ok = false; if (record) vp::fail("octets:read-only-memory", "checksum of a buffer in read-only memory differs", ser(st, p, n, split)); }
            if (n % 2 == 0 && ((uintptr_t)ro.p % 2) == 0 && ufw_crc16_arc_u16(st, (const uint16_t *)ro.p, n / 2) != want) { ok = false; if (record) vp::fail("words:read-only-memory", "word variant on read-only memory differs", ser(st, p, n, split)); }
        }
    }
    {   // the same calls with the count written as an expression, the way callers write it (header length + payload length)
        size_t h = n / 3, t = n - h;
        if (ufw_crc16_arc(st, blk.p, h + t) != want || (st == 0 && ufw_buffer_crc16_arc(blk.p, h + t) != want)) { ok = false; if (record) vp::fail("octets:count-expression", "call with the count written as a sum differs", ser(st, p, n, split)); }
    }
    if (st == 0 && ufw_buffer_crc16_arc(blk.p, n) != want) { ok = false; if (record) vp::fail("octets:buffer-variant", "ufw_buffer_crc16_arc differs from initial value 0", ser(st, p, n, split)); }
    if (n % 2 == 0) {
        std::vector<uint16_t> w(n / 2 + 1);
        if (n) memcpy(w.data(), p, n);
        uint16_t *wb = (uint16_t *)malloc(n ? n : 2);
        if (n) memcpy(wb, p, n);
        uint16_t gw = ufw_crc16_arc_u16(st, wb, n / 2);
        if (gw != want) { ok = false; if (record) vp::fail("words:value", vp::fmt("word variant %04x vs octet image %04x", gw, want), ser(st, p, n, split)); }
        if (n) { uint16_t sv = wb[0]; wb[0] = (uint16_t)(sv ^ 0x0180); std::vector<uint8_t> q(n); memcpy(q.data(), wb, n);
                 uint16_t w2 = ref::crc16_arc(st, q.data(), n), g2 = ufw_crc16_arc_u16(st, wb, n / 2); wb[0] = sv;
                 if (g2 != w2) { ok = false; if (record) vp::fail("words:after-in-place-change", "second call with identical arguments after the buffer was changed in place", ser(st, p, n, split)); } }
        { size_t wh = (n / 2) / 3, wt = n / 2 - wh;
          if (ufw_crc16_arc_u16(st, wb, wh + wt) != want || (st == 0 && ufw_buffer_crc16_arc_u16(wb, wh + wt) != want)) { ok = false; if (record) vp::fail("words:count-expression", "word variant called with the count written as a sum differs", ser(st, p, n, split)); } }
        if (st == 0 && ufw_buffer_crc16_arc_u16(wb, n / 2) != want) { ok = false; if (record) vp::fail("words:buffer-variant", "ufw_buffer_crc16_arc_u16", ser(st, p, n, split)); }
        free(wb);
    }
    return ok;
}

// The functions are pure, so they may be called from an interrupt while the interrupted code is inside them (the usual embedded use: an
// ISR checksums its frame while the main line checksums a record). A POSIX timer fires every 150 us; its handler checksums its own buffer,
// the main line checksums buffers of several KiB and compares with the reference. Which call gets interrupted where is up to the clock, so a
// run that sees nothing proves little - but a mismatch is a real one: nothing else can change the result of a pure function.
#include <signal.h>
#include <time.h>
static uint8_t g_isr_buf[96]; static volatile uint16_t g_isr_want; static volatile unsigned g_isr_runs, g_isr_bad;
static void isr(int) { uint16_t c = ufw_crc16_arc(0x1d0f, g_isr_buf, sizeof g_isr_buf); g_isr_runs++; if (c != g_isr_want) g_isr_bad++; }
static bool interrupt_stress(unsigned millis) {
    for (size_t i = 0; i < sizeof g_isr_buf; i++) g_isr_buf[i] = (uint8_t)(0xc3 ^ (i * 29));
    g_isr_want = ref::crc16_arc(0x1d0f, g_isr_buf, sizeof g_isr_buf); g_isr_runs = g_isr_bad = 0;
    struct sigaction sa; memset(&sa, 0, sizeof sa); sa.sa_handler = isr; sigemptyset(&sa.sa_mask); sa.sa_flags = SA_RESTART;
    if (sigaction(SIGRTMIN + 3, &sa, nullptr) != 0) return true;
    timer_t tm; struct sigevent se; memset(&se, 0, sizeof se); se.sigev_notify = SIGEV_SIGNAL; se.sigev_signo = SIGRTMIN + 3;
    if (timer_create(CLOCK_MONOTONIC, &se, &tm) != 0) return true;
    struct itimerspec its; its.it_value.tv_sec = 0; its.it_value.tv_nsec = 150000; its.it_interval = its.it_value;
    timer_settime(tm, 0, &its, nullptr);
    std::vector<uint8_t> buf(6000); for (size_t i = 0; i < buf.size(); i++) buf[i] = (uint8_t)(i * 7 + (i >> 8));
    struct timespec t0, t1; clock_gettime(CLOCK_MONOTONIC, &t0);
    unsigned long rounds = 0, bad = 0; size_t badlen = 0;
    for (;;) {
        for (int k = 0; k < 64; k++) {
            size_t n = 1000 + (rounds * 37 + (unsigned)k * 101) % 5000; uint16_t st = (uint16_t)(rounds * 31 + (unsigned)k);
            uint16_t got = ufw_crc16_arc(st, buf.data(), n), got2 = ufw_crc16_arc_u16(st, (const uint16_t *)buf.data(), n / 2);
            if (got != ref::crc16_arc(st, buf.data(), n) || got2 != ref::crc16_arc(st, buf.data(), n / 2 * 2)) { bad++; badlen = n; }
        }
        rounds++; vp::alive();
        clock_gettime(CLOCK_MONOTONIC, &t1);
        if ((t1.tv_sec - t0.tv_sec) * 1000 + (t1.tv_nsec - t0.tv_nsec) / 1000000 >= (long)millis) break;
    }
    memset(&its, 0, sizeof its); timer_settime(tm, 0, &its, nullptr); timer_delete(tm); signal(SIGRTMIN + 3, SIG_IGN);
    vp::count(rounds * 128 + g_isr_runs); vp::cls("calls-interrupted-by-a-handler-that-checksums", g_isr_runs);
    vp::stats().notes["interrupt_stress"] = vp::fmt("%lu main-line rounds of 128 calls, %u handler runs in %u ms", rounds, (unsigned)g_isr_runs, millis);
    if (bad || g_isr_bad) { vp::fail("interrupted:value", vp::fmt("%lu main-line results and %u handler results differ from the reference while a timer handler that calls ufw_crc16_arc interrupts the main line (e.g. a buffer of %zu octets)", bad, (unsigned)g_isr_bad, badlen), "interrupt-stress\n"); return false; }
    return true;
}
// Preemption sweep: the harness owns the schedule. A child process (fresh: the library has not been called in it since the fork, and the
// parent runs this phase before it calls the library at all) single-steps one call with the x86 trap flag; at instruction k the SIGTRAP
// handler stops stepping and calls the checksum functions on a buffer of its own, then the interrupted call continues. Both results are
// compared with the reference. k sweeps over the whole call, so every point at which an interrupt handler could run is tried once -
// for the very first call in the process (lazily built tables) and for a later one.
#if defined(__x86_64__)
#include <sys/wait.h>
#include <ucontext.h>
static volatile long g_step, g_target; static volatile int g_fired, g_nested_bad;
static uint16_t g_nbuf[40]; static uint16_t g_nwant_w, g_nwant_o;
static void trap_handler(int, siginfo_t *, void *ucv) {
    if (++g_step != g_target) return;
    ucontext_t *uc = (ucontext_t *)ucv;
    uc->uc_mcontext.gregs[REG_EFL] &= ~0x100L;          // the interrupted call runs on at full speed
    g_fired = 1;
    uint16_t w = ufw_crc16_arc_u16(0x2b1d, g_nbuf, 40), o = ufw_crc16_arc(0x2b1d, g_nbuf, 77);
    if (w != g_nwant_w || o != g_nwant_o) g_nested_bad = 1;
}
// returns: 0 fine, 1 the interrupted call is wrong, 2 the nested call is wrong, 4 k is beyond the end of the call, 8 infrastructure
static int sweep_child(int variant, bool warm, long k) {
    pid_t pid = fork();
    if (pid < 0) return 8;
    if (pid == 0) {
        static uint16_t buf[24];
        for (int i = 0; i < 24; i++) buf[i] = (uint16_t)(0x1357 * (i + 3));
        for (int i = 0; i < 40; i++) g_nbuf[i] = (uint16_t)(0x9e37 * (i + 1));
        g_nwant_w = ref::crc16_arc(0x2b1d, (const uint8_t *)g_nbuf, 80); g_nwant_o = ref::crc16_arc(0x2b1d, (const uint8_t *)g_nbuf, 77);
        uint16_t want = variant == 0 ? ref::crc16_arc(0x0a0b, (const uint8_t *)buf, 48) : ref::crc16_arc(0x0a0b, (const uint8_t *)buf, 45);
        if (warm) { (void)ufw_crc16_arc_u16(1, buf, 24); (void)ufw_crc16_arc(1, buf, 48); }
        struct sigaction sa; memset(&sa, 0, sizeof sa); sa.sa_sigaction = trap_handler; sa.sa_flags = SA_SIGINFO; sigemptyset(&sa.sa_mask);
        sigaction(SIGTRAP, &sa, nullptr);
        g_step = 0; g_target = k; g_fired = 0; g_nested_bad = 0;
        uint16_t got;
        __asm__ volatile("pushfq\n\torq $0x100, (%%rsp)\n\tpopfq" ::: "cc", "memory");
        got = variant == 0 ? ufw_crc16_arc_u16(0x0a0b, buf, 24) : ufw_crc16_arc(0x0a0b, buf, 45);
        __asm__ volatile("pushfq\n\tandq $~0x100, (%%rsp)\n\tpopfq" ::: "cc", "memory");
        int rc = 0;
        if (!g_fired) rc |= 4;
        if (got != want) rc |= 1;
        if (g_nested_bad) rc |= 2;
        _exit(rc);
    }
    int st = 0;
    if (waitpid(pid, &st, 0) != pid || !WIFEXITED(st)) return 8;
    return WEXITSTATUS(st);
}
static void preemption_sweep() {
    static const char *vn[2] = {"ufw_crc16_arc_u16", "ufw_crc16_arc"};
    for (int warm = 0; warm < 2; warm++) for (int variant = 0; variant < 2; variant++) {
        long tried = 0, bad_at = -1; int bad = 0;
        for (long k = 1; k < 200000; k += (k < 96 ? 1 : 7)) {
            int rc = sweep_child(variant, warm, k);
            if (rc & 8) { vp::stats().notes["preemption_sweep"] = "fork/wait failed: phase skipped"; return; }
            if (rc & 4) break;
            tried++; vp::alive();
            if ((rc & 3) && bad_at < 0) { bad_at = k; bad = rc & 3; }
        }
        vp::count((uint64_t)tried); vp::cls(std::string("preemption-points:") + vn[variant] + (warm ? ":later-call" : ":first-call-in-the-process"), (uint64_t)tried);
        vp::nontrivial(vp::mix((uint64_t)tried, 424200 + (uint64_t)(variant * 2 + warm)));
        if (bad_at >= 0) vp::fail(std::string("preempted:") + (warm ? "later-call" : "first-call"), vp::fmt("%s interrupted at instruction %ld of %s by a handler that checksums its own buffer: %s result differs from the reference",
                                                                 vn[variant], bad_at, warm ? "a later call" : "the first call in the process", bad & 1 ? "the interrupted call's" : "the handler's"), "preemption-sweep\n");
    }
}
#else
static void preemption_sweep() {}
#endif
// 2^31 words (4 GiB of untouched zero pages) through C callers whose count is a 32-bit variable, an unsigned sum or a literal: equal to the
// octet variant over the same 2^32 octets (which takes its count as a size_t). Two 4 GiB passes per state: optimised build, thorough tier only.
static void giant_counts() {
    size_t bytes = (size_t)1 << 32;
    void *mem = mmap(nullptr, bytes, PROT_READ, MAP_PRIVATE | MAP_ANONYMOUS | MAP_NORESERVE, -1, 0);
    if (mem == MAP_FAILED) { vp::stats().notes["giant_counts"] = "4 GiB of address space not available: phase skipped"; return; }
    const uint16_t *w = (const uint16_t *)mem;
    std::string rep = "giant-counts\n";
    vp::CaseScope scope([rep] { return rep; });
    // each of the six passes takes many seconds (more on a loaded machine) and cannot be cut into pieces: the progress watchdog is for
    // harness-owned callbacks that never return, not for a bounded loop over 4 GiB, so it is switched off for the duration of this phase
    alarm(0);
    uint16_t want = ufw_crc16_arc(0x1d0f, mem, bytes), want0 = ufw_crc16_arc(CRC16_ARC_INITIAL, mem, bytes);
    struct { const char *name; uint16_t got, want; } r[4] = {
        {"uint32_t count", vp_crc_u16_count32(0x1d0f, w, 0x80000000u), want}, {"unsigned sum", vp_crc_u16_unsigned(0x1d0f, w, 0x7fffffffu, 1u), want},
        {"literal 0x80000000", vp_crc_u16_literal31(0x1d0f, w), want}, {"buffer variant, uint32_t count", vp_crc_buffer_u16_count32(w, 0x80000000u), want0}};
    for (auto &x : r) { vp::count(); vp::nontrivial(vp::fnv(x.name, strlen(x.name), 16)); vp::cls("2^31-words-with-a-count-narrower-than-size_t");
        if (x.got != x.want) vp::fail(std::string("giant-count:") + x.name, vp::fmt("word checksum of 2^31 words called with a %s returns %04x, the octet variant over the same 2^32 octets %04x", x.name, x.got, x.want), rep); }
    munmap(mem, bytes);
    vp::alive(); alarm(vp::args().replay.empty() ? 10 : 60);
}
static void run() {
    auto &a = vp::args();
    vp::Rng rng(a.seed * 7919 + a.shard);
    bool fast = false;
#ifdef VP_FAST
    fast = true;
#endif
    if (fast && a.thorough() && a.shard == 1 % a.nshards) giant_counts();
    if (!fast && a.shard == 0 && !vp::vg().on) preemption_sweep();   // first: the library has not been called in this process yet
    if (!fast && a.shard == a.nshards - 1 && !vp::vg().on) interrupt_stress(a.thorough() ? 6000 : 1200);
    if (!fast) {
        vp::stats().rule = "enum: all 2^24 (state, octet) pairs of the update step; known check value; random buffers <= 4 KiB split at every position; buffers of 2^8/2^15/2^16/2^17 (+-1,2) octets and words; word buffers of every length 0..64 from random states; every buffer again after an in-place change (identical arguments) and at an odd start address; every 4-octet buffer over {state low, state high, 00, ff, low^1} from every state; messages followed by their own checksum and zero padding; a single-stepped preemption sweep (a handler that checksums runs at every instruction of the first and of a later call); 1.2 s (thorough 6 s) of calls interrupted every 150 us by a timer handler that checksums its own buffer";
        vp::stats().exhaustive = true;
        // (1) all (state, octet) pairs, dealt to shards by state
        static uint32_t cur_st, cur_o;
        vp::CaseScope stepscope([] { uint8_t oc = (uint8_t)cur_o; return ser((uint16_t)cur_st, &oc, 1, 0); });
        for (uint32_t st = a.shard; st < 65536; st += a.nshards)
            for (uint32_t o = 0; o < 256; o++) {
                static uint8_t oc; oc = (uint8_t)o; cur_st = st; cur_o = o;   // one object for all iterations: the call reads through the pointer every time
                uint16_t got = ufw_crc16_arc((uint16_t)st, &oc, 1), want = ref::crc16_arc_octet((uint16_t)st, oc);
                vp::count();
                if (st && o) vp::nontrivial(((uint64_t)st << 8) | o);
                if (got != want) vp::fail("step:value", vp::fmt("update step (%04x, %02x) = %04x, reference %04x", st, o, got, want), ser((uint16_t)st, &oc, 1, 0));
            }
        vp::cls("update-step-pairs", (65536 / a.nshards) * 256ull);
        if (a.shard == 0) {
            const char *chk = "123456789";
            vp::count();
            if (ufw_buffer_crc16_arc(chk, 9) != 0xBB3D) vp::fail("check-value", "crc(\"123456789\") != 0xBB3D", ser(0, (const uint8_t *)chk, 9, 0));
        }
        // (2) random buffers, every split position
        size_t nbuf = a.thorough() ? 400 : 40;
        for (size_t i = 0; i < nbuf; i++) {
            size_t n = (i % 4 == 0) ? (size_t)rng.range(1, 4096) : (size_t)rng.range(0, 64);
            std::vector<uint8_t> buf(n);
            for (auto &b : buf) b = rng.chance(1, 8) ? (rng.chance(1, 2) ? 0x00 : 0xff) : rng.byte();
            uint16_t st = rng.chance(1, 4) ? 0 : (uint16_t)rng.next();
            for (size_t split = 0; split <= n; split++) {
                vp::count(); vp::cls("buffer-splits");
                if (split > 0 && split < n) vp::nontrivial(vp::mix(vp::fnv(buf.data(), n, st), split));
                check_buffer(st, buf.data(), n, split, true);
            }
            VP_SAMPLE(ser(st, buf.data(), std::min<size_t>(n, 24), 0) + vp::fmt("(%zu octets, every split)", n));
        }
        // (2b) size boundaries: 2^8, 2^15, 2^16, 2^17 (+-1) octets / words - a length kept in a narrower type shows here
        {
            static const size_t SIZES[] = {255, 256, 257, 32767, 32768, 32769, 65534, 65535, 65536, 65537, 65538, 131070, 131071, 131072, 131073, 131074, 200001, 262144};
            size_t k = 0;
            for (size_t n : SIZES) {
                if (k++ % a.nshards != a.shard) continue;
                std::vector<uint8_t> buf(n);
                for (auto &b : buf) b = rng.byte();
                uint16_t st = (uint16_t)rng.next();
                for (size_t split : {(size_t)0, (size_t)1, n / 2, n / 2 + 1, n - 1, n}) {
                    vp::count(); vp::cls("size-boundary-buffers");
                    vp::nontrivial(vp::mix(vp::fnv(buf.data(), 64, st), n * 8 + split % 8));
                    check_buffer(st, buf.data(), n, split, true);
                }
                // odd start address inside a larger block
                std::vector<uint8_t> shifted(n + 1); memcpy(shifted.data() + 1, buf.data(), n);
                uint16_t want = ref::crc16_arc(st, buf.data(), n);
                if (ufw_crc16_arc(st, shifted.data() + 1, n) != want) vp::fail("octets:odd-address", vp::fmt("buffer of %zu octets at an odd address", n), ser(st, buf.data(), std::min<size_t>(n, 64), 0));
            }
        }
        // (3) word buffers of every length 0..64
        for (size_t words = a.shard; words <= 64; words += a.nshards)
            for (int rep = 0; rep < (a.thorough() ? 200 : 20); rep++) {
                std::vector<uint8_t> buf(words * 2);
                for (auto &b : buf) b = rng.byte();
                uint16_t st = rep == 0 ? 0 : (uint16_t)rng.next();
                vp::count(); vp::cls("word-buffers");
                vp::nontrivial(vp::fnv(buf.data(), buf.size(), st ^ 0x5555));
                check_buffer(st, buf.data(), buf.size(), words, true);
            }
        // (4) buffers related to the starting value: every 4-octet buffer over {state low octet, state high octet, 00, ff, low^1} from every state (a message
        //     that carries its own checksum, zero padding behind it, ... are the inputs of every verifier), and messages followed by their own checksum and padding
        for (uint32_t st = a.shard; st < 65536; st += a.nshards) {
            const uint8_t al[5] = {(uint8_t)st, (uint8_t)(st >> 8), 0x00, 0xff, (uint8_t)(st ^ 1)};
            for (unsigned code = 0; code < 625; code++) {
                uint8_t b[4]; unsigned c = code; for (int i = 0; i < 4; i++) { b[i] = al[c % 5]; c /= 5; }
                uint16_t want = ref::crc16_arc((uint16_t)st, b, 4);
                if (ufw_crc16_arc((uint16_t)st, b, 4) != want) { vp::fail("state-related:value", vp::fmt("crc(%04x, %s) = %04x, reference %04x", st, vp::hex(b, 4).c_str(), ufw_crc16_arc((uint16_t)st, b, 4), want), ser((uint16_t)st, b, 4, 0)); break; }
            }
            vp::count(625); vp::nontrivial(0x7000000ull + st);
        }
        vp::cls("state-related-4-octet-buffers", (65536ull / a.nshards) * 625ull);
        for (size_t i = 0; i < (a.thorough() ? 20000u : 2000u); i++) {
            size_t n = (size_t)rng.range(0, 40), pad = (size_t)rng.range(0, 9);
            std::vector<uint8_t> buf(n);
            for (auto &b : buf) b = rng.byte();
            uint16_t st = rng.chance(1, 3) ? 0 : (uint16_t)rng.next();
            uint16_t c = ref::crc16_arc(st, buf.data(), n);
            bool le = rng.chance(2, 3);
            buf.push_back((uint8_t)(le ? c : c >> 8)); buf.push_back((uint8_t)(le ? c >> 8 : c));
            for (size_t k = 0; k < pad; k++) buf.push_back(0x00);
            vp::count(); vp::cls("message-followed-by-own-checksum-and-padding");
            vp::nontrivial(vp::fnv(buf.data(), buf.size(), st ^ 0x1234));
            check_buffer(st, buf.data(), buf.size(), n, true);
            if (le && ufw_crc16_arc(st, buf.data(), n + 2) != 0) vp::fail("residue", "the checksum of a message followed by its own checksum (low octet first) is not zero", ser(st, buf.data(), buf.size(), n));
        }
    } else {
        // thorough only, unsanitized library: all one- and two-octet buffers from every state (2^16 * (2^8 + 2^16))
        vp::stats().rule = "enum(fast): all one- and two-octet buffers from every starting state (2^32 + 2^24 calls), value comparison only";
        vp::stats().exhaustive = true;
        for (uint32_t st = a.shard; st < 65536; st += a.nshards) {
            for (uint32_t w = 0; w < 65536; w++) {
                uint8_t b[2] = {(uint8_t)(w >> 8), (uint8_t)w};
                uint16_t want = ref::crc16_arc_octet(ref::crc16_arc_octet((uint16_t)st, b[0]), b[1]);
                if (ufw_crc16_arc((uint16_t)st, b, 2) != want) { vp::fail("two-octets:value", "two-octet buffer", ser((uint16_t)st, b, 2, 1)); break; }
                uint16_t word; memcpy(&word, b, 2);
                if (ufw_crc16_arc_u16((uint16_t)st, &word, 1) != want) { vp::fail("words:value", "one-word buffer", ser((uint16_t)st, b, 2, 1)); break; }
            }
            vp::count(65536);
            vp::nontrivial(st);
        }
        vp::cls("two-octet-buffers", (65536ull / a.nshards) * 65536ull);
    }
}
static bool replay(const std::string &text) {
    if (text.rfind("giant-counts", 0) == 0) { giant_counts(); return vp::stats().failures.empty(); }
    auto w = vp::split(vp::lines(text).at(0));
    if (!w.empty() && w[0] == "interrupt-stress") return interrupt_stress(3000);
    if (!w.empty() && w[0] == "preemption-sweep") { preemption_sweep(); return vp::stats().failures.empty(); }
    if (w.size() < 4 || w[0] != "crc") return false;
    uint16_t st = (uint16_t)strtoul(w[1].c_str(), 0, 10);
    std::vector<uint8_t> buf = w[2] == "-" ? std::vector<uint8_t>() : vp::unhex(w[2]);
    size_t split = strtoull(w[3].c_str(), 0, 10);
    if (split > buf.size()) split = 0;
    bool ok = check_buffer(st, buf.data(), buf.size(), split, true);
    if (buf.size() == 9 && memcmp(buf.data(), "123456789", 9) == 0 && st == 0 && ufw_buffer_crc16_arc(buf.data(), 9) != 0xBB3D) ok = false;
    return ok;
}
VP_MAIN(run, replay)
