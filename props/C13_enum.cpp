// C13 — length-prefix framing carries exactly the designated octets.
#include "support/endpoints.hpp"
#include "model/varint.hpp"
#include <array>
#include <ufw/length-prefix.h>

typedef std::vector<uint8_t> Bytes;
static const char *kname[] = {"varint", "octet", "le16", "le32", "be16", "be32", "varint-through-lenp_-wrappers"};
static const int NK = 7;   // kind 6: the lenp_* convenience entry points (variable-length prefix without a kind argument)
static uint64_t kmax(int k) { switch (k % 6) { case 1: return 255; case 2: case 4: return 65535; case 3: case 5: return 0xffffffffull; default: return (uint64_t)SSIZE_MAX; } }

static Bytes ref_prefix(int k, uint64_t n) {
    switch (k % 6) {
    case 0: return ref::varint_encode(n);
    case 1: return {(uint8_t)n};
    case 2: return {(uint8_t)n, (uint8_t)(n >> 8)};
    case 3: return {(uint8_t)n, (uint8_t)(n >> 8), (uint8_t)(n >> 16), (uint8_t)(n >> 24)};
    case 4: return {(uint8_t)(n >> 8), (uint8_t)n};
    default: return {(uint8_t)(n >> 24), (uint8_t)(n >> 16), (uint8_t)(n >> 8), (uint8_t)n};
    }
}

// entry-point dispatch: kinds 0..5 through flenp_*(kind, ...), kind 6 through the lenp_* wrappers
#define VPK(k) ((LengthPrefixKind)(k))
static int X_memory_encode(int k, LengthPrefixBuffer *l, void *m, size_t n) { return k == 6 ? lenp_memory_encode(l, m, n) : flenp_memory_encode(VPK(k), l, m, n); }
static int X_buffer_encode(int k, LengthPrefixBuffer *l, ByteBuffer *b) { return k == 6 ? lenp_buffer_encode(l, b) : flenp_buffer_encode(VPK(k), l, b); }
static int X_buffer_encode_n(int k, LengthPrefixBuffer *l, ByteBuffer *b, size_t n) { return k == 6 ? lenp_buffer_encode_n(l, b, n) : flenp_buffer_encode_n(VPK(k), l, b, n); }
static int X_chunks_use(int k, LengthPrefixChunks *c) { return k == 6 ? lenp_chunks_use(c) : flenp_chunks_use(VPK(k), c); }
static ssize_t X_memory_to_sink(int k, Sink *s, void *m, size_t n) { return k == 6 ? lenp_memory_to_sink(s, m, n) : flenp_memory_to_sink(VPK(k), s, m, n); }
static ssize_t X_buffer_to_sink(int k, Sink *s, ByteBuffer *b) { return k == 6 ? lenp_buffer_to_sink(s, b) : flenp_buffer_to_sink(VPK(k), s, b); }
static ssize_t X_buffer_to_sink_n(int k, Sink *s, ByteBuffer *b, size_t n) { return k == 6 ? lenp_buffer_to_sink_n(s, b, n) : flenp_buffer_to_sink_n(VPK(k), s, b, n); }
static ssize_t X_chunks_to_sink(int k, Sink *s, ByteChunks *c) { return k == 6 ? lenp_chunks_to_sink(s, c) : flenp_chunks_to_sink(VPK(k), s, c); }
static ssize_t X_memory_from_source(int k, Source *s, void *m, size_t n) { return k == 6 ? lenp_memory_from_source(s, m, n) : flenp_memory_from_source(VPK(k), s, m, n); }
static ssize_t X_buffer_from_source(int k, Source *s, ByteBuffer *b) { return k == 6 ? lenp_buffer_from_source(s, b) : flenp_buffer_from_source(VPK(k), s, b); }
static ssize_t X_decode_source_to_sink(int k, Source *s, Sink *t) { return k == 6 ? lenp_decode_source_to_sink(s, t) : flenp_decode_source_to_sink(VPK(k), s, t); }
static uint8_t pay(size_t i) { return (uint8_t)(0x21 + 5 * i + (i >> 8)); }

// A case is a compact line of integers; op selects the entry point.
//  op 1 memory_encode 2 buffer_encode 3 buffer_encode_n 4 chunks_use 5 memory_to_sink 6 buffer_to_sink 7 buffer_to_sink_n 8 chunks_to_sink
//     9 huge-length prefix objects / refusal   10 decode stream
struct Case {
    int op, k;
    uint64_t n;                                   // length / n argument
    size_t bsize, bused, boff;                    // source buffer state (ops 2,3,6,7)
    std::vector<std::array<size_t, 3>> chunks;    // (size, used, offset) per chunk (ops 4, 8)
    size_t active;
    // decode (op 10)
    int dec;                                      // 1 memory_from_source 2 buffer_from_source 3 decode_source_to_sink
    std::vector<size_t> lens;                     // payload lengths of the frames on the stream
    std::vector<int> frag;                        // fragmentation script for the chunk source (empty + octet=1: octet source)
    bool octet_src;
    int capdelta;                                 // destination capacity = len + capdelta for the last frame
    size_t pre_used, pre_off;                     // content already in the destination buffer (dec 2, 3)
};
static std::string ser(const Case &c) {
    std::string s = vp::fmt("lenp %d %d %llu %zu %zu %zu %zu %d %d %d %zu %zu C", c.op, c.k, (unsigned long long)c.n, c.bsize, c.bused, c.boff, c.active, c.dec, (int)c.octet_src, c.capdelta, c.pre_used, c.pre_off);
    for (auto &ch : c.chunks) s += vp::fmt(" %zu %zu %zu", ch[0], ch[1], ch[2]);
    s += " L"; for (size_t l : c.lens) s += vp::fmt(" %zu", l);
    s += " F"; for (int f : c.frag) s += vp::fmt(" %d", f);
    return s + vp::fmt("\n# op=%d kind=%s\n", c.op, kname[c.k]);
}
static bool parse(const std::string &t, Case &c) {
    auto w = vp::split(vp::lines(t).at(0));
    if (w.size() < 14 || w[0] != "lenp") return false;
    size_t i = 1;
    c.op = atoi(w[i++].c_str()); c.k = atoi(w[i++].c_str()); c.n = strtoull(w[i++].c_str(), 0, 10);
    c.bsize = strtoull(w[i++].c_str(), 0, 10); c.bused = strtoull(w[i++].c_str(), 0, 10); c.boff = strtoull(w[i++].c_str(), 0, 10);
    c.active = strtoull(w[i++].c_str(), 0, 10); c.dec = atoi(w[i++].c_str()); c.octet_src = atoi(w[i++].c_str()); c.capdelta = atoi(w[i++].c_str());
    c.pre_used = strtoull(w[i++].c_str(), 0, 10); c.pre_off = strtoull(w[i++].c_str(), 0, 10);
    if (w[i++] != "C") return false;
    c.chunks.clear(); c.lens.clear(); c.frag.clear();
    while (i + 2 < w.size() && w[i] != "L") { c.chunks.push_back({(size_t)strtoull(w[i].c_str(), 0, 10), (size_t)strtoull(w[i + 1].c_str(), 0, 10), (size_t)strtoull(w[i + 2].c_str(), 0, 10)}); i += 3; }
    if (i >= w.size() || w[i++] != "L") return false;
    while (i < w.size() && w[i] != "F") c.lens.push_back(strtoull(w[i++].c_str(), 0, 10));
    if (i < w.size()) i++;
    while (i < w.size()) c.frag.push_back(atoi(w[i++].c_str()));
    return c.k >= 0 && c.k < NK;
}
static Case g_cur;
static void F(const Case &c, const std::string &key, const std::string &msg) {
    static const char *opn[] = {"?", "memory_encode", "buffer_encode", "buffer_encode_n", "chunks_use", "memory_to_sink", "buffer_to_sink", "buffer_to_sink_n", "chunks_to_sink", "huge", "decode"};
    std::string o = opn[c.op];
    if (c.op == 10) o += c.dec == 1 ? ":memory_from_source" : c.dec == 2 ? ":buffer_from_source" : ":source_to_sink";
    vp::fail(o + ":" + key, msg + " kind=" + kname[c.k], ser(c));
}

static bool prefix_ok(const Case &c, const ByteBuffer &p, const unsigned char *storage, uint64_t n) {
    Bytes want = ref_prefix(c.k, n);
    if (p.data != storage) { F(c, "prefix-storage", "prefix buffer does not point at the object's own storage"); return false; }
    if (byte_buffer_rest(&p) != want.size() || p.offset != 0 || memcmp(p.data, want.data(), want.size()) != 0) {
        F(c, "prefix-octets", "prefix " + vp::hex(p.data + p.offset, std::min<size_t>(byte_buffer_rest(&p), 10)) + " expected " + vp::hex(want)); return false; }
    return true;
}

// buffer in an exact-size heap block, content pay(i)
struct Buf { vp::Block blk; ByteBuffer b; Buf(size_t size, size_t used, size_t off, size_t salt = 0) : blk(size ? size : 1, 0x5c) { for (size_t i = 0; i < size; i++) blk.p[i] = pay(i + salt); b.data = blk.p; b.size = size; b.used = used; b.offset = off; } };

static void op_encode_objects(const Case &c) {
    LengthPrefixBuffer lpb; memset(&lpb, 0, sizeof lpb);
    if (c.op == 1) {
        size_t n = (size_t)c.n;
        vp::Block mem(n); for (size_t i = 0; i < n; i++) mem.p[i] = pay(i);
        int rc = X_memory_encode(c.k, &lpb, mem.p, n);
        if (n > kmax(c.k)) { if (rc >= 0) F(c, "over-maximum-accepted", vp::fmt("n=%zu accepted", n)); return; }
        if (rc != 0) { F(c, "refused", vp::fmt("rc=%d for n=%zu", rc, n)); return; }
        if (!prefix_ok(c, lpb.prefix, lpb.prefix_, n)) return;
        if (lpb.payload.data + lpb.payload.offset != mem.p || byte_buffer_rest(&lpb.payload) != n) F(c, "payload-designation", "payload does not designate the n octets given");
    } else {
        Buf src(c.bsize, c.bused, c.boff);
        ByteBuffer before = src.b;
        size_t rest = c.bused - c.boff;
        if (c.op == 2) {
            int rc = X_buffer_encode(c.k, &lpb, &src.b);
            if (rest == 0) { vp::stats().dontcare++; return; }
            if (rest > kmax(c.k)) { if (rc >= 0) F(c, "over-maximum-accepted", "accepted"); return; }
            if (rc != 0) { F(c, "refused", vp::fmt("rc=%d", rc)); return; }
            if (!prefix_ok(c, lpb.prefix, lpb.prefix_, rest)) return;
            if (lpb.payload.data + lpb.payload.offset != src.blk.p + c.boff || byte_buffer_rest(&lpb.payload) != rest) F(c, "payload-designation", "payload is not the buffer's unread content");
        } else {
            size_t n = (size_t)c.n;
            int rc = X_buffer_encode_n(c.k, &lpb, &src.b, n);
            if (n > rest) {
                if (rc >= 0) F(c, "n-beyond-unread-accepted", vp::fmt("n=%zu rest=%zu rc=%d", n, rest, rc));
                else if (src.b.offset != before.offset || src.b.used != before.used) F(c, "refused-but-buffer-changed", "buffer fields changed by a refused call");
                return;
            }
            if (n == 0) { vp::stats().dontcare++; return; }
            if (rc != 0) { F(c, "refused", vp::fmt("rc=%d", rc)); return; }
            if (!prefix_ok(c, lpb.prefix, lpb.prefix_, n)) return;
            if (lpb.payload.data + lpb.payload.offset != src.blk.p + c.boff || byte_buffer_rest(&lpb.payload) != n) F(c, "payload-designation", "payload is not the first n unread octets");
            if (src.b.offset != before.offset + n || src.b.used != before.used) F(c, "advance", vp::fmt("buffer advanced by %zu instead of n=%zu", src.b.offset - before.offset, n));
        }
    }
}

static std::vector<Buf *> make_chunks(const Case &c, std::vector<ByteBuffer> &arr, Bytes &designated) {
    std::vector<Buf *> bufs;
    size_t salt = 0;
    if (c.pre_used == 1 && (c.op == 4 || c.op == 8)) {
        // the chunks are carved out of one array, back to back (chunk i+1 begins where the memory of chunk i ends)
        size_t total = 0; for (auto &ch : c.chunks) total += ch[0];
        bufs.push_back(new Buf(total, total, 0, 0));
        size_t at = 0;
        for (auto &ch : c.chunks) { ByteBuffer b; b.data = bufs[0]->blk.p + at; b.size = ch[0]; b.used = ch[1]; b.offset = ch[2]; arr.push_back(b); at += ch[0]; }
    } else {
    for (auto &ch : c.chunks) { bufs.push_back(new Buf(ch[0], ch[1], ch[2], salt)); salt += 37; }
    for (auto *b : bufs) arr.push_back(b->b);
    }
    // an empty chunk may also be the null buffer (byte_buffer_null(): no memory at all) - size 3 with nothing used stands for it
    for (size_t i = 0; i < arr.size(); i++) if (c.chunks[i][0] == 3 && c.chunks[i][1] == 0 && c.chunks[i][2] == 0) byte_buffer_null(&arr[i]);
    for (size_t i = c.active; i < arr.size(); i++) designated.insert(designated.end(), arr[i].data + arr[i].offset, arr[i].data + arr[i].used);
    return bufs;
}

static void op_chunks(const Case &c) {
    std::vector<ByteBuffer> arr; Bytes designated;
    auto bufs = make_chunks(c, arr, designated);
    size_t n = designated.size();
    if (c.op == 4) {
        LengthPrefixChunks lpc; memset(&lpc, 0, sizeof lpc);
        lpc.payload.chunks = arr.size(); lpc.payload.active = c.active; lpc.payload.chunk = arr.data();
        int rc = X_chunks_use(c.k, &lpc);
        if (n == 0) vp::stats().dontcare++;
        else if (n > kmax(c.k)) { if (rc >= 0) F(c, "over-maximum-accepted", "accepted"); }
        else if (rc != 0) F(c, "refused", vp::fmt("rc=%d", rc));
        else prefix_ok(c, lpc.prefix, lpc.prefix_, n);
    } else {
        ByteChunks bc; bc.chunks = arr.size(); bc.active = c.active; bc.chunk = arr.data();
        ep::ScriptSink snk(!c.octet_src); snk.script.steps = c.frag;   // for the encoders, octet_src / frag describe the sink: octet-style, or a chunk sink with short writes and EINTR
        if (c.capdelta > 0) snk.err_at = c.capdelta - 1;                  // capdelta - 1: number of octets the sink accepts before it fails for good
        ssize_t rc = X_chunks_to_sink(c.k, &snk.snk, &bc);
        if (n == 0) vp::stats().dontcare++;
        else if (n > kmax(c.k)) { if (rc >= 0) F(c, "over-maximum-accepted", "accepted"); else if (!snk.got.empty()) F(c, "refused-after-emission", "octets emitted before the refusal"); }
        else {
            Bytes want = ref_prefix(c.k, n); want.insert(want.end(), designated.begin(), designated.end());
            if (c.capdelta > 0 && (size_t)(c.capdelta - 1) < want.size()) {
                if (rc >= 0) F(c, "sink-error-swallowed", vp::fmt("the sink failed after %d octets but the call returned %zd", c.capdelta - 1, rc));
                else if (!ep::is_prefix(snk.got, want)) F(c, "sink-error-garbage", "what reached the failing sink is not a prefix of prefix + payload");
            } else
            if (rc != (ssize_t)want.size()) F(c, "return", vp::fmt("returned %zd, total is %zu (sink holds %zu octets)", rc, want.size(), snk.got.size()));
            else if (snk.got != want) F(c, "octets", "sink " + vp::hex(snk.got) + " expected " + vp::hex(want));
        }
    }
    for (auto *b : bufs) delete b;
}

static bool sink_failed(const Case &c, ssize_t rc, const ep::ScriptSink &snk, const Bytes &want) {
    if (!(c.capdelta > 0 && (size_t)(c.capdelta - 1) < want.size())) return false;
    if (rc >= 0) F(c, "sink-error-swallowed", vp::fmt("the sink failed after %d octets but the call returned %zd", c.capdelta - 1, rc));
    else if (!ep::is_prefix(snk.got, want)) F(c, "sink-error-garbage", "what reached the failing sink is not a prefix of prefix + payload");
    return true;
}
// pre_used == 2 with ops 6/7: the buffer that is framed is also the object behind the sink (a ByteBuffer used as a queue: the frame of its
// first unread octets is appended to its own end through the library's buffer sink). Source and destination ranges never overlap.
static void op_to_own_sink(const Case &c) {
    Buf src(c.bsize, c.bused, c.boff);
    Sink s; sink_to_buffer(&s, &src.b);
    ByteBuffer before = src.b;
    Bytes content(src.blk.p, src.blk.p + c.bsize);
    size_t rest = c.bused - c.boff, room = c.bsize - c.bused;
    size_t n = c.op == 6 ? rest : (size_t)c.n;
    ssize_t rc = c.op == 6 ? X_buffer_to_sink(c.k, &s, &src.b) : X_buffer_to_sink_n(c.k, &s, &src.b, n);
    vp::cls("frame-appended-to-the-framed-buffer-itself");
    if ((c.op == 7 && n > rest) || n > kmax(c.k)) {
        if (rc >= 0) F(c, "own-sink:refusable-accepted", vp::fmt("n=%zu rest=%zu rc=%zd", n, rest, rc));
        else if (src.b.offset != before.offset || src.b.used != before.used || memcmp(src.blk.p, content.data(), c.bsize) != 0) F(c, "own-sink:refused-but-buffer-changed", "buffer changed by a refused call");
        return;
    }
    if (n == 0) { vp::stats().dontcare++; return; }
    Bytes want = ref_prefix(c.k, n); want.insert(want.end(), content.begin() + (long)c.boff, content.begin() + (long)(c.boff + n));
    if (memcmp(src.blk.p, content.data(), c.bused) != 0) { F(c, "own-sink:queued-octets-overwritten", "octets in front of the fill mark changed"); return; }
    if (src.b.used < before.used || src.b.used - before.used > want.size() || memcmp(src.blk.p + before.used, want.data(), src.b.used - before.used) != 0) { F(c, "own-sink:appended-octets", vp::fmt("fill mark moved from %zu to %zu; what was appended is not a prefix of prefix + payload", before.used, src.b.used)); return; }
    if (want.size() <= room) {
        if (rc != (ssize_t)want.size()) { F(c, "own-sink:return", vp::fmt("returned %zd, total is %zu (room %zu)", rc, want.size(), room)); return; }
        if (src.b.used != before.used + want.size()) { F(c, "own-sink:frame-not-in-buffer", vp::fmt("the call reports %zd octets but the fill mark moved from %zu to %zu", rc, before.used, src.b.used)); return; }
        if (c.op == 7 && src.b.offset != before.offset + n) F(c, "own-sink:advance", vp::fmt("read mark moved by %zu instead of n=%zu", src.b.offset - before.offset, n));
    } else if (rc >= 0 && (size_t)rc >= want.size()) F(c, "own-sink:no-room-but-success", vp::fmt("frame of %zu octets reported as sent into %zu free octets", want.size(), room));
}
static void op_to_sink(const Case &c) {
    if (c.pre_used == 2 && (c.op == 6 || c.op == 7)) { op_to_own_sink(c); return; }
    ep::ScriptSink snk(!c.octet_src); snk.script.steps = c.frag;
    if (c.capdelta > 0) snk.err_at = c.capdelta - 1;
    if (c.op == 5) {
        size_t n = (size_t)c.n;
        vp::Block mem(n); for (size_t i = 0; i < n; i++) mem.p[i] = pay(i);
        ssize_t rc = X_memory_to_sink(c.k, &snk.snk, mem.p, n);
        if (n > kmax(c.k)) { if (rc >= 0) F(c, "over-maximum-accepted", "accepted"); else if (!snk.got.empty()) F(c, "refused-after-emission", "octets emitted before the refusal"); return; }
        Bytes want = ref_prefix(c.k, n); want.insert(want.end(), mem.p, mem.p + n);
        if (sink_failed(c, rc, snk, want)) return;
        if (rc != (ssize_t)want.size()) F(c, "return", vp::fmt("returned %zd, total is %zu", rc, want.size()));
        else if (snk.got != want) F(c, "octets", "sink differs from prefix + payload (first octets " + vp::hex(snk.got.data(), std::min<size_t>(snk.got.size(), 12)) + ")");
        return;
    }
    Buf src(c.bsize, c.bused, c.boff);
    ByteBuffer before = src.b;
    size_t rest = c.bused - c.boff;
    size_t n = c.op == 6 ? rest : (size_t)c.n;
    ssize_t rc = c.op == 6 ? X_buffer_to_sink(c.k, &snk.snk, &src.b) : X_buffer_to_sink_n(c.k, &snk.snk, &src.b, n);
    if (c.op == 7 && n > rest) {
        if (rc >= 0) F(c, "n-beyond-unread-accepted", vp::fmt("n=%zu rest=%zu rc=%zd", n, rest, rc));
        else if (!snk.got.empty()) F(c, "refused-after-emission", "octets emitted before the refusal");
        else if (src.b.offset != before.offset || src.b.used != before.used) F(c, "refused-but-buffer-changed", "buffer fields changed by a refused call");
        return;
    }
    if (n == 0) { vp::stats().dontcare++; return; }
    if (n > kmax(c.k)) { if (rc >= 0) F(c, "over-maximum-accepted", "accepted"); else if (!snk.got.empty()) F(c, "refused-after-emission", "octets emitted before the refusal"); return; }
    Bytes want = ref_prefix(c.k, n); want.insert(want.end(), src.blk.p + c.boff, src.blk.p + c.boff + n);
    if (sink_failed(c, rc, snk, want)) return;
    if (rc != (ssize_t)want.size()) { F(c, "return", vp::fmt("returned %zd, total is %zu (unread %zu, free %zu)", rc, want.size(), rest, c.bsize - c.bused)); return; }
    if (snk.got != want) { F(c, "octets", "sink " + vp::hex(snk.got.data(), std::min<size_t>(snk.got.size(), 16)) + " expected " + vp::hex(want.data(), std::min<size_t>(want.size(), 16))); return; }
    if (c.op == 7 && (src.b.offset != before.offset + n || src.b.used != before.used)) F(c, "advance", vp::fmt("buffer advanced by %zu instead of n=%zu", src.b.offset - before.offset, n));
}

// lengths that cannot be backed by memory: prefix objects never touch the payload; to_sink must refuse before emitting
static void op_huge(const Case &c) {
    uint64_t n = c.n;
    static unsigned char dummy[16];
    LengthPrefixBuffer lpb; memset(&lpb, 0, sizeof lpb);
    int rc = X_memory_encode(c.k, &lpb, dummy, (size_t)n);
    if (n > kmax(c.k)) {
        if (rc >= 0) F(c, "over-maximum-accepted", vp::fmt("n=%llu accepted by flenp_memory_encode", (unsigned long long)n));
        ep::ScriptSink snk(true);
        ssize_t r2 = X_memory_to_sink(c.k, &snk.snk, dummy, (size_t)n);
        if (r2 >= 0) F(c, "over-maximum-accepted", "accepted by flenp_memory_to_sink");
        else if (!snk.got.empty()) F(c, "refused-after-emission", "octets emitted before the refusal");
    } else {
        if (rc != 0) { F(c, "refused", vp::fmt("n=%llu refused, rc=%d", (unsigned long long)n, rc)); return; }
        prefix_ok(c, lpb.prefix, lpb.prefix_, n);
    }
}

static void op_decode(const Case &c) {
    // the stream: frames with payload pay(j + 16*frame)
    Bytes stream; std::vector<Bytes> pls;
    for (size_t f = 0; f < c.lens.size(); f++) {
        Bytes p(c.lens[f]); for (size_t j = 0; j < p.size(); j++) p[j] = pay(j + 16 * f + 3);
        Bytes pre = ref_prefix(c.k, p.size());
        stream.insert(stream.end(), pre.begin(), pre.end()); stream.insert(stream.end(), p.begin(), p.end());
        pls.push_back(p);
    }
    ep::ScriptSource src(!c.octet_src, stream);
    // a script entry of 100000 + g is not a fragment but says: the (chunk) source lends a g-octet scratch region through the getbuffer extension
    for (int v : c.frag) { if (v >= 100000) { if (!c.octet_src) src.lend((size_t)v - 100000); } else src.script.steps.push_back(v); }
    for (size_t f = 0; f < pls.size(); f++) {
        const Bytes &p = pls[f];
        bool last = f + 1 == pls.size();
        long cap = (long)p.size() + (last ? c.capdelta : 0);
        if (cap < 0) cap = 0;
        ssize_t rc;
        if (!VP_BUDGET(200 + 8 * stream.size())) { F(c, "no-progress", "decoder keeps calling the source"); return; }
        if (c.dec == 1) {
            vp::Block dst((size_t)cap, 0xee);
            rc = X_memory_from_source(c.k, &src.src, dst.p, (size_t)cap);
            vp::budget().armed = false;
            if ((size_t)cap >= p.size()) {
                if (rc != (ssize_t)p.size()) { F(c, "return", vp::fmt("frame %zu: returned %zd, payload has %zu octets", f, rc, p.size())); return; }
                if (memcmp(dst.p, p.data(), p.size()) != 0) { F(c, "payload", vp::fmt("frame %zu: destination %s expected %s", f, vp::hex(dst.p, p.size()).c_str(), vp::hex(p).c_str())); return; }
                for (size_t i = p.size(); i < (size_t)cap; i++) if (dst.p[i] != 0xee) { F(c, "wrote-beyond-payload", "octets behind the payload changed"); return; }
            } else {
                if (rc != -ENOMEM) F(c, "no-room-not-reported", vp::fmt("capacity %ld < length %zu but returned %zd", cap, p.size(), rc));
                for (size_t i = 0; i < (size_t)cap; i++) if (dst.p[i] != 0xee) { F(c, "no-room-but-written", "destination written although the payload does not fit"); break; }
                return;
            }
        } else {
            // destination buffer with previous content
            size_t size = c.pre_used + (size_t)cap;
            vp::Block mem(size ? size : 1, 0xee);
            for (size_t i = 0; i < c.pre_used; i++) mem.p[i] = (uint8_t)(0xc1 + i);
            ByteBuffer db; db.data = mem.p; db.size = size; db.used = c.pre_used; db.offset = std::min(c.pre_off, c.pre_used);
            ByteBuffer before = db;
            if (size == 0) { vp::budget().armed = false; vp::stats().dontcare++; return; }
            if (c.dec == 2) rc = X_buffer_from_source(c.k, &src.src, &db);
            else { Sink snk; sink_to_buffer(&snk, &db); rc = X_decode_source_to_sink(c.k, &src.src, &snk); }
            vp::budget().armed = false;
            for (size_t i = 0; i < c.pre_used; i++) if (mem.p[i] != (uint8_t)(0xc1 + i)) { F(c, "previous-content-overwritten", vp::fmt("octet %zu of the filled region changed", i)); return; }
            if (db.data != before.data || db.size != before.size || !(db.offset <= db.used && db.used <= db.size)) { F(c, "destination-descriptor", "destination buffer descriptor broken"); return; }
            if ((size_t)cap >= p.size()) {
                if (rc != (ssize_t)p.size()) { F(c, "return", vp::fmt("frame %zu: returned %zd, payload has %zu octets", f, rc, p.size())); return; }
                if (db.used != before.used + p.size()) { F(c, "fill-mark", vp::fmt("fill mark moved from %zu to %zu for %zu octets", before.used, db.used, p.size())); return; }
                if (db.offset != before.offset) { F(c, "read-mark-moved", vp::fmt("read offset moved from %zu to %zu", before.offset, db.offset)); return; }
                if (memcmp(mem.p + before.used, p.data(), p.size()) != 0) { F(c, "payload", "payload not appended at the fill mark"); return; }
                for (size_t i = before.used + p.size(); i < size; i++) if (mem.p[i] != 0xee) { F(c, "wrote-beyond-payload", "octets behind the payload changed"); return; }
            } else {
                if (rc >= 0) F(c, "no-room-not-reported", vp::fmt("capacity %ld < length %zu but returned %zd", cap, p.size(), rc));
                else if (c.dec == 2 && rc != -ENOMEM) F(c, "no-room-not-reported", vp::fmt("returned %zd instead of out-of-memory", rc));
                return;
            }
        }
    }
    if (!src.scratch_guard_ok()) { F(c, "lent-region-overrun", "octets outside the region the source lent were written"); return; }
    if (src.pos != stream.size()) F(c, "stream-position", vp::fmt("decoding all frames consumed %zu of %zu octets", src.pos, stream.size()));
}

static void run_case(const Case &c) {
    g_cur = c;
    switch (c.op) {
    case 1: case 2: case 3: op_encode_objects(c); break;
    case 4: case 8: op_chunks(c); break;
    case 5: case 6: case 7: op_to_sink(c); break;
    case 9: op_huge(c); break;
    case 10: op_decode(c); break;
    }
    vp::count();
}
static Case mk(int op, int k, uint64_t n = 0) { Case c{}; c.op = op; c.k = k; c.n = n; c.active = 0; c.dec = 0; c.octet_src = false; c.capdelta = 0; c.pre_used = c.pre_off = 0; c.bsize = c.bused = c.boff = 0; return c; }

// the same encoder call against sinks that accept the octets differently: all at once, one octet per call, short writes mixed with EINTR, octet-style
static void run_sinks(Case c) {
    run_case(c);
    c.frag.assign(24, 1); run_case(c);
    c.frag = {-EINTR, 2, -EINTR, -EINTR, 1, 3, 1, -EINTR, 2}; run_case(c);
    c.frag.clear(); c.octet_src = true; run_case(c);
    c.frag = {0, 1, 0, 0, 1, -EINTR, 1, 0, -EAGAIN, 0, 1}; run_case(c);   // an octet-style sink that sometimes takes nothing (0: "retry") or is interrupted
    vp::cls("encoder-into-sink-with-short-writes");
    // a sink that fails for good after j octets, for the first few j (inside the prefix, at its end, inside the payload)
    for (int j = 0; j <= 6; j++) { c.octet_src = (j & 1); c.frag.clear(); if (j & 2) c.frag.assign(8, 1); c.capdelta = j + 1; run_case(c); }
    vp::cls("encoder-into-failing-sink", 7);
    // a chunk sink that answers "nothing yet" a million times in a row before it takes the octets (a polled line with a slow peer)
    if (c.op == 5 && c.n == 3 && !vp::vg().on) { c.capdelta = 0; c.octet_src = false; c.frag.assign(1000001, 0); c.frag.push_back(1); c.frag.insert(c.frag.end(), 1048577, -EAGAIN); run_case(c); vp::cls("encoder-into-sink-idle-for-a-million-calls"); }
}
static void run() {
    auto &a = vp::args();
    vp::CaseScope scope([] { return ser(g_cur); });
    bool T = a.thorough();
    size_t maxbuf = T ? 10 : 7;
    vp::stats().rule = vp::fmt("enum: 6 prefix kinds (+ the lenp_* wrapper entry points for the variable-length kind) x lengths 1..1100 and kind maxima +-1 through memory_encode/memory_to_sink; every buffer state (size<=%zu, offset<=used<=size) x n in 0..rest+1 through "
                               "buffer_encode(_n)/buffer_to_sink(_n), the latter also with the framed buffer itself behind the sink (frame appended to its own end); chunk lists of 1..3 small chunks incl. empty/partly consumed ones, in separate blocks and carved back to back out of one array; huge lengths (2^32-1, 2^32, SSIZE_MAX+-) through prefix objects; "
                               "decoding of 1..3-frame streams in every fragmentation (stream length <= %d) by chunk and octet sources (and chunk sources lending a scratch buffer) into memory/buffer/buffer-sink destinations of capacity len-1/len/len+1, "
                               "destinations with previous content", maxbuf, T ? 15 : 12);
    vp::stats().exhaustive = true;
    uint64_t idx = 0;
    auto mine = [&]() { return idx++ % a.nshards == a.shard; };
    // lengths through memory entry points
    for (int k = 0; k < NK; k++) {
        std::vector<uint64_t> lens;
        for (uint64_t n = 1; n <= 1100; n++) lens.push_back(n);
        for (uint64_t n : std::vector<uint64_t>{16383, 16384, 65534, 65535, 65536, 65537}) lens.push_back(n);
        for (uint64_t n : lens) {
            if (!mine()) continue;
            if (n <= 300 || n % 7 == 0 || n > 1100) { run_case(mk(1, k, n)); }
            if (n <= 40 || n % 64 < 2 || n > 1100) run_sinks(mk(5, k, n)); else run_case(mk(5, k, n));
            if (n >= 128 || n > kmax(k)) vp::nontrivial(vp::mix(n, k));
            vp::cls(n > kmax(k) ? "length-over-maximum" : "length-in-range");
        }
        if (k == 0 && a.shard == 1 % a.nshards) for (uint64_t n : std::vector<uint64_t>{(1ull << 21) - 1, 1ull << 21, (1ull << 21) + 1}) { run_case(mk(1, k, n)); run_case(mk(5, k, n)); vp::cls("varint-group-boundary-with-payload"); }
        if (a.shard == 0) for (unsigned g = 1; g <= 9; g++) for (int d = -1; d <= 1; d++) { uint64_t n = (1ull << (7 * g)) + (uint64_t)(int64_t)d; if (n <= (uint64_t)SSIZE_MAX) { run_case(mk(9, k, n)); vp::nontrivial(vp::mix(n, k + 77)); vp::cls("varint-group-boundaries"); } }
        if (a.shard == 0) for (uint64_t n : std::vector<uint64_t>{0xffffffffull - 1, 0xffffffffull, 0x100000000ull, 0x100000001ull, (uint64_t)SSIZE_MAX - 1, (uint64_t)SSIZE_MAX, (uint64_t)SSIZE_MAX + 1, ~(uint64_t)0}) {
            run_case(mk(9, k, n)); vp::nontrivial(vp::mix(n, k + 50)); vp::cls("huge-lengths");
        }
    }
    // buffer states
    for (int k = 0; k < NK; k++)
        for (size_t size = 1; size <= maxbuf; size++) for (size_t used = 0; used <= size; used++) for (size_t off = 0; off <= used; off++) {
            if (!mine()) continue;
            for (int op : {2, 6}) { Case c = mk(op, k); c.bsize = size; c.bused = used; c.boff = off; if (op == 6) run_sinks(c); else run_case(c); }
            for (size_t n = 0; n <= used - off + 1; n++) for (int op : {3, 7}) { Case c = mk(op, k, n); c.bsize = size; c.bused = used; c.boff = off; if (op == 7) run_sinks(c); else run_case(c); if (vp::want_sample()) vp::sample(ser(c)); }
            if (used < size) {
                { Case c = mk(6, k); c.bsize = size; c.bused = used; c.boff = off; c.pre_used = 2; run_case(c); }
                for (size_t n = 0; n <= used - off + 1; n++) { Case c = mk(7, k, n); c.bsize = size; c.bused = used; c.boff = off; c.pre_used = 2; run_case(c); }
            }
            if (off > 0 && used < size) { vp::nontrivial(vp::mix(vp::mix(vp::mix(size, used), off), k + 200)); vp::cls("buffer-with-offset-and-free-space"); } else vp::cls("buffer-plain");
        }
    // larger buffers (lengths across the one-octet boundary), sampled states
    for (int k = 0; k < NK; k++) for (size_t size : {200u, 300u}) for (size_t used : {130u, 200u}) for (size_t off : {0u, 1u, 3u}) {
        if (!mine()) continue;
        for (int op : {2, 6}) { Case c = mk(op, k); c.bsize = size; c.bused = used; c.boff = off; run_case(c); }
        for (size_t n : {1u, 127u, 128u, 129u}) for (int op : {3, 7}) { Case c = mk(op, k, n); c.bsize = size; c.bused = used; c.boff = off; run_case(c); }
    }
    // chunk lists
    std::vector<std::array<size_t, 3>> cs = {{1, 0, 0}, {1, 1, 0}, {1, 1, 1}, {2, 2, 0}, {2, 2, 1}, {3, 2, 1}, {3, 3, 3}, {3, 0, 0}, {4, 4, 0}};
    for (int k = 0; k < NK; k++)
        for (size_t nch = 1; nch <= (T ? 4u : 3u); nch++) {
            uint64_t total = 1; for (size_t i = 0; i < nch; i++) total *= cs.size();
            for (uint64_t code = 0; code < total; code++) for (size_t active = 0; active <= (nch > 1 ? 1u : 0u); active++) {
                if (!mine()) continue;
                Case c = mk(4, k); uint64_t x = code; bool empty = false;
                for (size_t i = 0; i < nch; i++) { c.chunks.push_back(cs[x % cs.size()]); x /= cs.size(); if (c.chunks.back()[1] == c.chunks.back()[2]) empty = true; }
                c.active = active;
                run_case(c); c.op = 8; run_sinks(c);
                if (nch > 1) { Case d = c; d.pre_used = 1; d.op = 4; run_case(d); d.op = 8; run_case(d); d.frag.assign(24, 1); run_case(d); vp::cls("chunk-list-carved-from-one-array"); }
                if (empty) { vp::nontrivial(vp::mix(vp::mix(code, nch), k * 2 + active + 300)); vp::cls("chunk-list-with-empty-chunk"); } else vp::cls("chunk-list-plain");
                if (vp::want_sample()) vp::sample(ser(c));
            }
        }
    // decoding: every fragmentation of short streams
    std::vector<std::vector<size_t>> framesets = {{1}, {2}, {3}, {1, 1}, {2, 1}, {1, 3}, {1, 1, 1}, {2, 2, 1}, {4}, {1, 2, 2}};
    size_t maxstream = T ? 15 : 12;
    for (int k = 0; k < NK; k++) for (auto &fs : framesets) {
        size_t slen = 0; for (size_t l : fs) slen += l + ref_prefix(k, l).size();
        if (slen > maxstream) continue;
        for (int dec = 1; dec <= 3; dec++) for (int capd = -1; capd <= 1; capd++) for (size_t pre = 0; pre <= (dec == 1 ? 0u : 2u); pre++) {
            // compositions of slen: bit i set = cut after octet i+1
            for (uint64_t cuts = 0; cuts < (1ull << (slen - 1)); cuts++) {
                if (!mine()) continue;
                Case c = mk(10, k); c.dec = dec; c.lens = fs; c.capdelta = capd; c.pre_used = pre; c.pre_off = pre ? pre - 1 : 0;
                size_t run = 1; bool splits_prefix = false;
                for (size_t i = 0; i + 1 < slen; i++) { if (cuts >> i & 1) { c.frag.push_back((int)run); run = 1; if (i + 1 < ref_prefix(k, fs[0]).size()) splits_prefix = true; } else run++; }
                c.frag.push_back((int)run);
                run_case(c);
                if (splits_prefix || pre) { vp::nontrivial(vp::fnv(ser(c))); vp::cls("fragmentation-splits-prefix-or-prefilled-destination"); } else vp::cls("fragmentation-other");
                if (vp::want_sample()) vp::sample(ser(c));
            }
            if (mine()) { Case c = mk(10, k); c.dec = dec; c.lens = fs; c.capdelta = capd; c.pre_used = pre; c.octet_src = true; run_case(c); vp::cls("octet-source"); }
            for (int g : {1, 2, 3, 5}) if (mine()) { Case c = mk(10, k); c.dec = dec; c.lens = fs; c.capdelta = capd; c.pre_used = pre; c.frag = {100000 + g, 2, 1, 3}; run_case(c); vp::cls("source-lends-buffer"); }
        }
        if (vp::too_many_failures()) return;
    }
    // random: long frames, random fragmentation
    vp::Rng rng(a.seed * 4409 + a.shard);
    size_t nrand = (T ? 400000 : 40000) / a.nshards;
    for (size_t i = 0; i < nrand; i++) {
        Case c = mk(10, (int)rng.below(NK)); c.dec = (int)rng.range(1, 3);
        size_t nf = (size_t)rng.range(1, 4);
        for (size_t f = 0; f < nf; f++) { size_t l = rng.chance(1, 4) ? (size_t)rng.range(120, 1100) : (size_t)rng.range(1, 40); if (c.k == 1 && l > 255) l = 255; c.lens.push_back(l); }
        c.capdelta = (int)rng.range(-1, 2); c.pre_used = c.dec == 1 ? 0 : (size_t)rng.range(0, 5); c.pre_off = c.pre_used ? (size_t)rng.below(c.pre_used + 1) : 0;
        c.octet_src = rng.chance(1, 5);
        size_t nfrag = (size_t)rng.range(0, 30);
        for (size_t j = 0; j < nfrag; j++) c.frag.push_back((int)rng.range(1, rng.chance(1, 2) ? 3 : 400));
        if (!c.octet_src && rng.chance(1, 3)) c.frag.push_back(100000 + (int)rng.pick(std::vector<uint64_t>{1, 2, 3, 7, 16, 64, 300}));
        run_case(c); vp::nontrivial(vp::fnv(ser(c))); vp::cls("random-streams");
    }
}
static bool replay(const std::string &text) {
    Case c;
    if (!parse(text, c)) return false;
    vp::CaseScope scope([] { return ser(g_cur); });
    run_case(c);
    return vp::stats().failures.empty();
}
VP_MAIN(run, replay)
