// C03 — block reads and range iteration follow the flat address-space model.
#include "props/reg_glue.hpp"
#include <climits>
#include <set>
using namespace rg;

// kind 0: block read (addr, n); kind 1: iteration (addr, n, script: stop kind s at k-th call; s 0 never, 1 positive, 2 negative,
// 4: the iteration runs from an area's write callback while register_init loads its k-th default through a callback
// 3: at the k-th call the callback itself iterates another range of the same table (k odd: one that ends earlier, k even: one that ends later) and goes on)
struct Case { TableD t; std::vector<std::vector<uint16_t>> content; int kind; uint32_t addr, n; int s; unsigned k; unsigned toggle = 0; };   // toggle: 1 + index of an area whose READABLE flag is flipped after initialisation (run-time lock / unlock)
static Case g_cur;
static std::string g_prefix;   // history in front of the case in flight (re-layout phase)
static std::string ser_case(const Case &c) {
    std::string s = rm::ser(c.t);
    for (size_t i = 0; i < c.content.size(); i++) { s += vp::fmt("content %zu", i); for (uint16_t w : c.content[i]) s += vp::fmt(" %u", w); s += "\n"; }
    s += vp::fmt("q %d %u %u %d %u %u\n", c.kind, c.addr, c.n, c.s, c.k, c.toggle);
    return s;
}
struct IterCtx { std::vector<uint32_t> seen; int s; unsigned k; uint32_t in_addr = 0, in_n = 0; std::vector<uint32_t> inner; bool inner_ran = false; RegisterAccess inner_rc; };
static int inner_cb(RegisterTable *, RegisterHandle h, void *arg) { ((IterCtx *)arg)->inner.push_back(h); return 0; }
static int iter_cb(RegisterTable *t, RegisterHandle h, void *arg) {
    IterCtx *x = (IterCtx *)arg;
    x->seen.push_back(h);
    if (x->s == 3) { if (x->seen.size() == x->k) { x->inner_ran = true; x->inner_rc = register_foreach_in(t, x->in_addr, x->in_n, inner_cb, x); } return 0; }
    static const int POS[3] = {1, 7, INT_MAX}, NEG[3] = {-1, -3, INT_MIN};
    if (x->s && x->seen.size() == x->k) return x->s == 1 ? POS[x->k % 3] : NEG[x->k % 3];
    return 0;
}

static std::string run_case(const Case &c0, std::string &msg) {
    g_cur = c0;
    Live lv(c0.t);
    IterCtx during; unsigned nwrites = 0;
    if (c0.kind == 1 && c0.s == 4) {
        // s == 4: the iteration happens while register_init is still at work - from the write callback of a callback-backed area at the k-th
        // default it is handed (the library raises its "initialised" mark before it loads defaults precisely so that its API works from there)
        cb_write_hook() = [&](RegisterArea *) { if (++nwrites == c0.k) { during.inner_ran = true; during.inner_rc = register_foreach_in(&lv.t, c0.addr, c0.n, inner_cb, &during); } };
    }
    RegisterInit in = lv.init();
    cb_write_hook() = nullptr;
    if (in.code != REG_INIT_SUCCESS) { msg = vp::fmt("valid table refused: code %d", (int)in.code); return "init:refused"; }
    if (c0.kind == 1 && c0.s == 4) {
        vp::count();
        if (!during.inner_ran) return "";      // fewer than k defaults go through a write callback in this table
        std::vector<uint32_t> want;
        for (size_t ri = 0; ri < c0.t.regs.size(); ri++) if (c0.n && c0.t.regs[ri].end() > c0.addr && c0.t.regs[ri].addr < c0.addr + c0.n) want.push_back((uint32_t)ri);
        vp::cls("iteration-from-a-write-callback-during-register_init");
        if (during.inner != want || during.inner_rc.code != REG_ACCESS_SUCCESS) {
            msg = vp::fmt("iteration over [%u,+%u) from the area's write callback while register_init loaded default %u visited %zu registers (%s), expected %zu", c0.addr, c0.n, c0.k, during.inner.size(), code_name(during.inner_rc.code), want.size());
            return "iterate:during-init:wrong-registers";
        }
        return "";
    }
    Case c = c0;
    if (c.toggle && c.toggle <= c.t.areas.size()) {
        // the flag lives in the caller's area description; whether a word is readable is what the flag says when the read happens
        lv.areas[c.toggle - 1].flags ^= REG_AF_READABLE;
        c.t.areas[c.toggle - 1].readable = !c.t.areas[c.toggle - 1].readable;
    }
    rm::Space m; m.init(c.t); m.mem = c.content;
    lv.copy_from(m);
    vp::count();
    if (c.kind == 0 && c.n > (1u << 20)) {
        // a block far larger than any table: some address is unmapped long before a buffer of that size would be needed, so the
        // request must be refused without touching the (small) caller buffer - also when addr + n wraps around 2^32
        uint64_t a = c.addr;
        while (a < (1ull << 32) && m.mapped((uint32_t)a)) a = c.t.areas[(size_t)m.area_of((uint32_t)a)].end();
        vp::Block buf(64 * 2);
        RegisterAccess r = register_block_read(&lv.t, c.addr, c.n, (RegisterAtom *)buf.p);
        if (lv.diff(m) >= 0) { msg = "block read changed the table's storage"; return "read:storage-changed"; }
        if (r.code == REG_ACCESS_SUCCESS) { msg = vp::fmt("read of %u words from %u succeeded although address %llu is unmapped", c.n, c.addr, (unsigned long long)a); return "read:unmapped-accepted"; }
        if (r.code != REG_ACCESS_NOENTRY || r.address != (uint32_t)a) { msg = vp::fmt("huge read: reported %s at %u, first unmapped address is %llu", code_name(r.code), r.address, (unsigned long long)a); return "read:wrong-unmapped-report"; }
        for (size_t i = 0; i < 128; i++) if (buf.p[i] != 0xa5) { msg = "refused read wrote into the caller's buffer"; return "read:refused-but-buffer-written"; }
        return "";
    }
    if (c.kind == 0) {
        // caller buffer: 4 canary words, n words, nothing behind (exact-size block => ASan guards the end)
        size_t pre = 4;
        vp::Block buf((pre + c.n) * 2);
        uint16_t *w = (uint16_t *)buf.p;
        for (size_t i = 0; i < pre + c.n; i++) w[i] = 0x7e57;
        // a read leaves the table as it found it, octet for octet: the descriptor, the area descriptions and the entries (a table in write-protected
        // memory, or one that is compared or checksummed as a whole, is a table all the same)
        std::vector<uint8_t> snapt((const uint8_t *)&lv.t, (const uint8_t *)&lv.t + sizeof lv.t), snapa((const uint8_t *)lv.areas, (const uint8_t *)lv.areas + (c.t.areas.size() + 1) * sizeof(RegisterArea)),
                             snape((const uint8_t *)lv.entries, (const uint8_t *)lv.entries + (c.t.regs.size() + 1) * sizeof(RegisterEntry));
        RegisterAccess a = register_block_read(&lv.t, c.addr, c.n, w + pre);
        if (memcmp(snapt.data(), &lv.t, sizeof lv.t) != 0 || memcmp(snapa.data(), lv.areas, snapa.size()) != 0 || memcmp(snape.data(), lv.entries, snape.size()) != 0) { msg = "the block read changed the table descriptor, an area description or an entry"; return "read:table-description-changed"; }
        for (size_t i = 0; i < pre; i++) if (w[i] != 0x7e57) { msg = "words in front of the caller's buffer changed"; return "read:wrote-before-buffer"; }
        if (lv.diff(m) >= 0) { msg = "block read changed the table's storage"; return "read:storage-changed"; }
        long unm = -1;
        for (uint32_t i = 0; i < c.n; i++) if (!m.mapped(c.addr + i)) { unm = (long)(c.addr + i); break; }
        if (unm < 0) {
            if (a.code != REG_ACCESS_SUCCESS) { msg = vp::fmt("read of a fully mapped range [%u,+%u) refused: %s at %u", c.addr, c.n, code_name(a.code), a.address); return "read:refused-although-mapped"; }
            for (uint32_t i = 0; i < c.n; i++) {
                const AreaD &ar = c.t.areas[(size_t)m.area_of(c.addr + i)];
                bool rd = ar.readable && ar.has_read;   // an area without a read callback cannot be read, whatever its flag says
                uint16_t want = rd ? m.word(c.addr + i) : 0;
                if (w[pre + i] != want) { msg = vp::fmt("word %u of the result is %04x, expected %04x (%s area)", i, w[pre + i], want, rd ? "readable" : "write-only"); return rd ? "read:wrong-word" : "read:write-only-not-zero"; }
            }
        } else {
            if (a.code == REG_ACCESS_SUCCESS) { msg = vp::fmt("read touching the unmapped address %ld succeeded", unm); return "read:unmapped-accepted"; }
            if (a.code != REG_ACCESS_NOENTRY || a.address != (uint32_t)unm) { msg = vp::fmt("reported %s at %u, first unmapped address is %ld", code_name(a.code), a.address, unm); return "read:wrong-unmapped-report"; }
        }
        return "";
    }
    IterCtx x; x.s = c.s; x.k = c.k;
    if (c.s == 3) { if (c.k & 1) { x.in_addr = c.addr; x.in_n = c.n / 2; } else { x.in_addr = c.addr + c.n / 2; x.in_n = c.n / 2 + 6; } }
    RegisterAccess a = register_foreach_in(&lv.t, c.addr, c.n, iter_cb, &x);
    std::vector<uint32_t> want;
    for (size_t ri = 0; ri < c.t.regs.size(); ri++) if (c.n && c.t.regs[ri].end() > c.addr && c.t.regs[ri].addr < c.addr + c.n) want.push_back((uint32_t)ri);
    if (c.s == 3 && x.inner_ran) {
        std::vector<uint32_t> iw;
        for (size_t ri = 0; ri < c.t.regs.size(); ri++) if (x.in_n && c.t.regs[ri].end() > x.in_addr && c.t.regs[ri].addr < x.in_addr + x.in_n) iw.push_back((uint32_t)ri);
        if (x.inner != iw || x.inner_rc.code != REG_ACCESS_SUCCESS) { msg = vp::fmt("nested iteration over [%u,+%u) from inside the callback visited %zu registers, expected %zu", x.in_addr, x.in_n, x.inner.size(), iw.size()); return "iterate:nested:wrong-registers"; }
    }
    bool cut = c.s && c.s != 3 && c.k >= 1 && c.k <= want.size();
    if (cut) want.resize(c.k);
    if (x.seen != want) {
        std::string g, e; for (auto h : x.seen) g += std::to_string(h) + " "; for (auto h : want) e += std::to_string(h) + " ";
        msg = vp::fmt("iteration over [%u,+%u) visited [%s] expected [%s]%s", c.addr, c.n, g.c_str(), e.c_str(), c.s == 3 ? " (the callback iterated another range in between)" : "");
        return c.s == 3 ? "iterate:outer-disturbed-by-nested-iteration" : x.seen.size() < want.size() ? "iterate:registers-missed" : "iterate:wrong-registers";
    }
    if (cut && c.s == 2) {
        uint32_t at = c.t.regs[want.back()].addr;
        if (a.code != REG_ACCESS_FAILURE || a.address != at) { msg = vp::fmt("negative callback result at register %u: reported %s at %u", want.back(), code_name(a.code), a.address); return "iterate:failure-report"; }
    } else if (a.code != REG_ACCESS_SUCCESS) { msg = vp::fmt("iteration reported %s", code_name(a.code)); return "iterate:not-success"; }
    return "";
}

// Histories over one table object: a layout is initialised and queried once, then the same object (run_case builds its table at the same
// address every time) is given a different layout, initialised again, and queried once at an address the first layout also mapped.
// Nothing the first layout left behind (in the object or in the library) may influence the second answer.
static TableD relayout(vp::Rng &rng, const TableD &t, int how) {
    TableD u = t;
    auto drop_regs_of = [&](uint32_t b, uint32_t e) { std::vector<rm::RegD> keep; for (auto &r : u.regs) if (!(r.addr >= b && r.addr < e)) keep.push_back(r); u.regs = keep; };
    switch (how) {
    case 0:   // the first area disappears: every later area gets a smaller handle
        if (u.areas.size() >= 2) { drop_regs_of(u.areas[0].base, u.areas[0].end()); u.areas.erase(u.areas.begin()); }
        break;
    case 1: { // a new area in front: every area gets a larger handle
        if (u.areas.front().base >= 3) { rm::AreaD n = u.areas.front(); n.size = 1 + (uint32_t)rng.below(2); n.base = u.areas.front().base - n.size - (uint32_t)rng.below(2); if (n.base + n.size <= u.areas.front().base) u.areas.insert(u.areas.begin(), n); }
        break; }
    case 2: { // an area is split into two adjacent ones (registers of it dropped)
        size_t k = rng.below(u.areas.size());
        if (u.areas[k].size >= 2) { drop_regs_of(u.areas[k].base, u.areas[k].end()); rm::AreaD lo = u.areas[k], hi = u.areas[k]; lo.size = 1 + (uint32_t)rng.below(u.areas[k].size - 1); hi.base = lo.base + lo.size; hi.size = u.areas[k].size - lo.size; u.areas[k] = lo; u.areas.insert(u.areas.begin() + (long)k + 1, hi); }
        break; }
    default:  // the last area disappears (a handle that used to be valid is now one past the end)
        if (u.areas.size() >= 2) { drop_regs_of(u.areas.back().base, u.areas.back().end()); u.areas.pop_back(); }
    }
    if (rng.below(2)) u.regs.clear();
    return u;
}
static void relayout_phase(vp::Rng &rng, size_t npairs) {
    FamilyOpts fo; fo.max_size = 8; fo.max_areas = 5;
    for (size_t pi = 0; pi < npairs && !vp::too_many_failures(); pi++) {
        Case c1, c2;
        c1.t = gen_table(rng, fo);
        if (rng.below(2)) c1.t.regs.clear();
        int how = (int)rng.below(4);
        c2.t = relayout(rng, c1.t, how);
        for (Case *c : {&c1, &c2}) { rm::Space m; m.init(c->t); for (auto &ar : m.mem) for (auto &w : ar) w = (uint16_t)(rng.next() | 1); c->content = m.mem; }
        // first query: one word somewhere in an area of the first layout
        size_t k1 = rng.below(c1.t.areas.size());
        const rm::AreaD &a1 = c1.t.areas[k1];
        c1.kind = 0; c1.addr = a1.base + (uint32_t)rng.below(a1.size); c1.n = 1; c1.s = 0; c1.k = 0;
        // second query: inside the area the first query hit, as far as the second layout maps it
        rm::Space m2; m2.init(c2.t);
        uint32_t ad = a1.base + (uint32_t)rng.below(a1.size);
        c2.kind = rng.below(4) ? 0 : 1; c2.addr = ad; c2.n = 1 + (uint32_t)rng.below(3); c2.s = 0; c2.k = 0;
        std::string msg, key = run_case(c1, msg);
        if (key.empty()) { g_prefix = ser_case(c1) + "----then----\n"; key = run_case(c2, msg); g_prefix.clear(); if (!key.empty()) key = "after-relayout:" + key; }
        if (!key.empty()) vp::fail(key, msg, ser_case(c1) + "----then----\n" + ser_case(c2));
        int h1 = (int)k1, h2 = m2.area_of(ad);
        if (h2 >= 0 && h2 != h1) { vp::nontrivial(vp::mix(vp::mix(vp::fnv(rm::ser(c1.t)), vp::fnv(rm::ser(c2.t))), ((uint64_t)c1.addr << 32) | ad)); vp::cls("relayout:same-address-other-area-handle"); }
        else if (h2 < 0) vp::cls("relayout:address-no-longer-mapped");
    }
}

// tables with an area that ends exactly at 2^32 (see C02): reads inside it, and reads that run over the top of the address space
static void top_area_phase() {
    for (uint32_t topsize : {1u, 2u, 8u, 0x100u}) for (int big = 0; big < 2; big++) {
        for (uint32_t off : {0u, topsize - 1}) {
            std::string rep = vp::fmt("top %u %d inside %u\n", topsize, big, off);
            vp::CaseScope scope([&] { return rep; });
            TopTable T(topsize, false, big);
            if (register_init(&T.t).code != REG_INIT_SUCCESS) { vp::fail("top-area:init-refused", "a table whose last area ends at 2^32 (no registers in it) is refused", rep); continue; }
            T.top[off] = 0x4321;
            uint16_t w[1] = {0};
            RegisterAccess a = register_block_read(&T.t, T.areas[1].base + off, 1, w);
            vp::count(); vp::cls("top-area:read-inside");
            if (a.code != REG_ACCESS_SUCCESS) {
                if (vp::excluded("top-area:read-refused")) vp::stats().excluded++;
                else vp::fail("top-area:read-refused", vp::fmt("block read of the mapped address %u in an area that ends at 2^32: %s at %u", T.areas[1].base + off, code_name(a.code), a.address), rep);
            } else if (w[0] != 0x4321) vp::fail("top-area:read-wrong-word", "block read from the top area returned another word", rep);
        }
        for (uint32_t k : {1u, 2u, 8u}) for (uint32_t j : {1u, 2u, 6u}) {
            if (k > topsize) continue;
            std::string rep = vp::fmt("top %u %d wrap %u %u\n", topsize, big, k, j);
            vp::CaseScope scope([&] { return rep; });
            TopTable T(topsize, false, big);
            if (register_init(&T.t).code != REG_INIT_SUCCESS) continue;
            vp::Block buf((size_t)(k + j) * 2);
            RegisterAccess a = register_block_read(&T.t, (uint32_t)(0u - k), k + j, (RegisterAtom *)buf.p);
            vp::count(); vp::cls("top-area:wrapping-read"); vp::nontrivial(vp::fnv(rep));
            if (a.code == REG_ACCESS_SUCCESS) vp::fail("top-area:wrapping-read-accepted", vp::fmt("block read [%u,+%u) runs over the top of the address space and succeeded", (uint32_t)(0u - k), k + j), rep);
        }
    }
}
static void run() {
    auto &a = vp::args();
    vp::CaseScope scope([] { return g_prefix + ser_case(g_cur); });
    size_t ntables = (a.thorough() ? 40000 : 3000) / a.nshards;
    vp::stats().rule = vp::fmt("enum: %zu generated valid tables per shard with randomised content; every (address, length) of a window from 2 below the first area to 2 behind the last as block read "
                               "(exact-size caller buffer with canary words in front) and as iteration range x callback scripts (never stop; positive / negative result at the k-th call for every k; a nested iteration over another range started from inside the k-th call); block reads after the READABLE flag of an area was flipped at run time; block reads of 2^31..2^32-1 words from every area (must be refused at the first unmapped address without touching the buffer); histories over one table object: layout A initialised and read once, then the object re-laid-out (area dropped / inserted / split), initialised again and queried at an address layout A mapped under another area handle", ntables);
    if (a.shard == 0) top_area_phase();
    vp::Rng rng(a.seed * 9973 + a.shard);
    FamilyOpts fo; fo.max_size = 8;
    FamilyOpts big; big.max_areas = 6; big.max_size = 20; big.max_regs = 12;   // thorough tier: every 8th table is a larger one
    FamilyOpts wide; wide.huge = 2; wide.many = 2; wide.max_size = 8;             // every 60th table: an area beyond 2^16 words, or 32..70 registers
    relayout_phase(rng, (a.thorough() ? 400000 : 40000) / a.nshards);
    for (size_t ti = 0; ti < ntables && !vp::too_many_failures(); ti++) {
        Case c; c.t = gen_table(rng, (ti % 60 == 59) ? wide : (ti % 8 == 7) ? big : fo);
        if (ti % 3 == 1) for (auto &ar : c.t.areas) { bool hasreg = false; for (auto &r : c.t.regs) if (r.addr >= ar.base && r.addr < ar.end()) hasreg = true; if (!hasreg) ar.has_read = false; }   // register-less areas without read callback (a reserved window, a write-only driver)
        rm::Space m; m.init(c.t);
        for (auto &ar : m.mem) for (auto &w : ar) w = (uint16_t)(rng.next() | 1);   // never zero: a zeroed write-only area must be distinguishable
        c.content = m.mem;
        uint32_t lo = c.t.areas.front().base >= 2 ? c.t.areas.front().base - 2 : 0, hi = c.t.areas.back().end() + 2;
        // number of defaults that reach a write callback during register_init (registers of callback-backed areas that load defaults)
        unsigned ncbdef = 0; { rm::Space mm; mm.init(c.t); for (auto &r : c.t.regs) { const AreaD &ra = c.t.areas[(size_t)mm.area_of(r.addr)]; if (!ra.membacked && ra.has_write && !ra.skip_defaults) ncbdef++; } }
        std::vector<std::pair<uint32_t, uint32_t>> windows;
        if (hi - lo <= 120) { for (uint32_t addr = lo; addr < hi; addr++) for (uint32_t n = 0; addr + n <= hi; n++) windows.push_back({addr, n}); }
        else {
            std::set<std::pair<uint32_t, uint32_t>> ws;
            auto around = [&](uint32_t center, uint32_t maxn) { for (long d = -2; d <= 2; d++) { long ad = (long)center + d; if (ad < (long)lo || ad >= (long)hi) continue; for (uint32_t n = 0; n <= maxn && (uint32_t)ad + n <= hi; n++) ws.insert({(uint32_t)ad, n}); } };
            for (auto &ar : c.t.areas) { around(ar.base, 4); around(ar.end(), 4); }
            for (auto &r : c.t.regs) { around(r.addr, 6); around(r.end(), 3); }
            for (auto &ar : c.t.areas) { ws.insert({ar.base, ar.size}); if (ar.size > 1) ws.insert({ar.base + 1, ar.size - 1}); ws.insert({lo, hi - lo}); }
            for (auto &ar : c.t.areas) if (ar.size > 0x10000u) for (uint32_t off : {0u, 1u, 3u}) for (uint32_t n : {0x10000u, 0x10001u, ar.size - off, ar.size - off - 1}) if (off + n <= ar.size + 2) ws.insert({ar.base + off, n});
            windows.assign(ws.begin(), ws.end());
        }
        for (auto &wn : windows) { uint32_t addr = wn.first, n = wn.second; {
                c.kind = 0; c.addr = addr; c.n = n; c.s = 0; c.k = 0; c.toggle = 0;
                std::string msg, key = run_case(c, msg);
                if (!key.empty()) vp::fail(key, msg, ser_case(c));
                if (n && (addr + n) % 4 == 1) { int ta = m.area_of(addr + n - 1); if (ta >= 0) { c.toggle = (unsigned)ta + 1; key = run_case(c, msg); if (!key.empty()) vp::fail("after-flag-change:" + key, msg, ser_case(c)); vp::cls("read-after-readable-flag-was-flipped"); c.toggle = 0; } }
                bool nt = false;
                if (n) { int a0 = m.area_of(addr); if (a0 >= 0 && !c.t.areas[(size_t)a0].readable && addr > c.t.areas[(size_t)a0].base) { nt = true; vp::cls("read-starts-mid-area-in-write-only-area"); }
                         if (a0 >= 0 && addr + n > c.t.areas[(size_t)a0].end()) { nt = true; vp::cls("read-crosses-area-edge"); } }
                if (nt) vp::nontrivial(vp::mix(vp::fnv(rm::ser(c.t)), addr * 64 + n));
                // iteration
                size_t nov = 0; bool start_in_gap = n > 0, inside_multi = false;
                for (auto &r : c.t.regs) { if (n && r.end() > addr && r.addr < addr + n) nov++; if (addr >= r.addr && addr < r.end()) { start_in_gap = false; if (addr > r.addr) inside_multi = true; } }
                for (int s = 0; s < 4; s++) for (unsigned k = (s ? 1 : 0); k <= (s ? (unsigned)nov + 1 : 0u); k++) {
                    if (s == 3 && (nov < 2 || k > nov)) continue;
                    if (nov > 8 && !(k <= 2 || k + 2 >= nov || k == nov / 2)) continue;   // long runs: stop positions at both ends and the middle
                    c.kind = 1; c.s = s; c.k = k;
                    key = run_case(c, msg);
                    if (!key.empty()) vp::fail(key, msg, ser_case(c));
                    if (vp::want_sample() && c.content.size() && c.content[0].size() < 400) vp::sample(ser_case(c));
                }
                if (ncbdef && nov) for (unsigned k = 1; k <= ncbdef && k <= 3; k++) {
                    c.kind = 1; c.s = 4; c.k = k;
                    key = run_case(c, msg);
                    if (!key.empty()) vp::fail(key, msg, ser_case(c));
                }
                if (nov && (start_in_gap || inside_multi)) { vp::nontrivial(vp::mix(vp::fnv(rm::ser(c.t)), addr * 64 + n + 7777777)); vp::cls(start_in_gap ? "iteration-starts-in-gap-or-hole" : "iteration-starts-inside-multiword-register"); }
            } }
        // lengths near 2^31 / 2^32 (address arithmetic on addr + n wraps there)
        for (auto &ar : c.t.areas) for (uint32_t off : {0u, 1u, 2u, 5u}) {
            if (off >= ar.size + 2) continue;
            for (uint32_t n : {0x7fffffffu, 0x80000000u, 0xffffff00u, 0xfffffffau, 0xfffffffbu, 0xfffffffcu, 0xfffffffdu, 0xfffffffeu, 0xffffffffu}) {
                c.kind = 0; c.addr = ar.base + off; c.n = n; c.s = 0; c.k = 0;
                std::string msg, key = run_case(c, msg);
                if (!key.empty()) vp::fail(key, msg, ser_case(c));
                vp::nontrivial(vp::mix(vp::fnv(rm::ser(c.t)), ((uint64_t)c.addr << 32) | n)); vp::cls("read-length-near-2^32");
            }
        }
    }
}
static bool parse_case(const std::string &text, Case &c);
static bool replay(const std::string &text) {
    if (text.rfind("top ", 0) == 0) { top_area_phase(); return vp::stats().failures.empty(); }
    size_t sep = text.find("----then----\n");
    if (sep != std::string::npos) {
        Case c1, c2;
        if (!parse_case(text.substr(0, sep), c1) || !parse_case(text.substr(sep + 13), c2)) return false;
        vp::CaseScope scope([] { return g_prefix + ser_case(g_cur); });
        std::string msg, key = run_case(c1, msg);
        if (key.empty()) { g_prefix = ser_case(c1) + "----then----\n"; key = run_case(c2, msg); if (!key.empty()) key = "after-relayout:" + key; }
        if (!key.empty()) printf("[replay] key=%s %s\n", key.c_str(), msg.c_str());
        return key.empty();
    }
    Case c;
    if (!parse_case(text, c)) return false;
    vp::CaseScope scope([] { return g_prefix + ser_case(g_cur); });
    std::string msg, key = run_case(c, msg);
    if (!key.empty()) printf("[replay] key=%s %s\n", key.c_str(), msg.c_str());
    return key.empty();
}
static bool parse_case(const std::string &text, Case &c) {
    std::vector<std::string> rest;
    if (!rm::parse(text, c.t, rest)) return false;
    c.content.resize(c.t.areas.size());
    for (auto &l : rest) {
        auto w = vp::split(l);
        if (w.empty()) continue;
        if (w[0] == "content" && w.size() >= 2) { size_t i = strtoull(w[1].c_str(), 0, 10); if (i < c.content.size()) for (size_t k = 2; k < w.size(); k++) c.content[i].push_back((uint16_t)strtoul(w[k].c_str(), 0, 10)); }
        else if (w[0] == "q" && w.size() >= 6) { c.kind = atoi(w[1].c_str()); c.addr = (uint32_t)strtoul(w[2].c_str(), 0, 10); c.n = (uint32_t)strtoul(w[3].c_str(), 0, 10); c.s = atoi(w[4].c_str()); c.k = (unsigned)atoi(w[5].c_str()); c.toggle = w.size() >= 7 ? (unsigned)atoi(w[6].c_str()) : 0; }
    }
    for (size_t i = 0; i < c.t.areas.size(); i++) c.content[i].resize(c.t.areas[i].size);
    return true;
}
VP_MAIN(run, replay)
