// C09 — enumerated boundary cases for receive/process: frame lengths around the block size, read sizes around the
// transmit limit, allocation failure at every allocation, empty/short frames, streams ending inside a frame.
#include "props/C09.hpp"
using namespace c09;

static Config g_cfg; static Bytes g_stream;
static void run_case(const Config &cfg, const Bytes &stream, const char *cls) {
    g_cfg = cfg; g_stream = stream;
    Outcome o = walk(cfg, stream);
    vp::count();
    if (!o.key.empty()) { vp::fail(o.key, o.msg, ser(cfg, stream)); return; }
    vp::cls(cls);
    if (o.reached_backend) vp::cls("reaches-backend", o.reached_backend);
    if (o.resource_replies) vp::cls("resource-reply", o.resource_replies);
    if (o.channel_errors) vp::cls("channel-error", o.channel_errors);
    if (o.reached_backend || o.resource_replies || o.channel_errors) vp::nontrivial(vp::fnv(ser(cfg, stream)));
    if (vp::want_sample()) vp::sample(ser(cfg, stream));
}
static Bytes payload(size_t n, unsigned salt) { Bytes p(n); for (size_t i = 0; i < n; i++) p[i] = mem_octet((uint32_t)i, salt); return p; }
static Bytes wire(bool serial, const rp::Frame &f) { return rp::on_wire(serial, rp::encode(f)); }

// A frame of 2^31 (and 2^32 + 2^31 + 10) octets on the TCP transport, really delivered: a lazily generating chunk source that lends a
// 64 KiB scratch region (getbuffer extension), so that the 2 GiB pass through the receiver in 32768 driver calls without existing anywhere.
// The frame is a well-formed write request header followed by filler: it cannot fit any block, so the answer is the receive-overflow
// response echoing sequence number and address; the small valid request behind it must then be handled normally.
struct LazySource {
    Source src; std::vector<uint8_t> scratch; Bytes head, tail; uint64_t body = 0, pos = 0; size_t calls = 0;
    uint64_t total() const { return head.size() + body + tail.size(); }
    static ByteBuffer gb(Source *s) { LazySource *me = (LazySource *)s->driver; ByteBuffer b; b.data = me->scratch.data(); b.size = me->scratch.size(); b.offset = 0; b.used = me->scratch.size(); return b; }
    static ssize_t rd(void *d, void *out, size_t n) {
        LazySource *me = (LazySource *)d; me->calls++;
        if (me->pos >= me->total()) return -ENODATA;
        uint64_t left = me->total() - me->pos; if (n > left) n = (size_t)left;
        uint8_t *o = (uint8_t *)out;
        for (size_t i = 0; i < n; ) {
            uint64_t p = me->pos + i;
            if (p < me->head.size()) { o[i++] = me->head[(size_t)p]; continue; }
            if (p >= me->head.size() + me->body) { o[i++] = me->tail[(size_t)(p - me->head.size() - me->body)]; continue; }
            uint64_t run = std::min<uint64_t>(n - i, me->head.size() + me->body - p);
            memset(o + i, 0x55, (size_t)run); i += (size_t)run;
        }
        me->pos += n; return (ssize_t)n;
    }
};
static void giant_frames() {
    for (uint64_t L : {(uint64_t)1 << 31, ((uint64_t)1 << 32) + ((uint64_t)1 << 31) + 10}) for (int mem16 = 0; mem16 < 2; mem16++) {
        std::string rep = vp::fmt("giant %llu %d\n", (unsigned long long)L, mem16);
        vp::CaseScope scope([&] { return rep; });
        LazySource ls; ls.scratch.assign(65536, 0);
        rp::Frame big = rp::make_request(false, true, false, 0x4711, 0x00abcdefu, 77, {});      // header only; the "payload" is the filler
        Bytes hdr = rp::encode(big);
        ls.head = ref::varint_encode(L); ls.head.insert(ls.head.end(), hdr.begin(), hdr.end());
        ls.body = L - hdr.size();
        ls.tail = rp::on_wire(false, rp::encode(rp::make_request(false, false, mem16, 9, 0x20, 1, {})));
        chunk_source_init(&ls.src, &LazySource::rd, &ls); ls.src.ext.getbuffer = &LazySource::gb;
        ep::ScriptSink snk(true); Ledger led(sizeof(RPFrame) + 200);
        RegP p; regp_init(&p);
        if (mem16) regp_use_memory16(&p, vp_read16, vp_write16); else regp_use_memory8(&p, vp_read8, vp_write8);
        regp_use_channel(&p, RP_EP_TCP, ls.src, snk.snk); regp_use_allocator(&p, &led.ba);
        be().reset();
        vp::count(); vp::nontrivial(vp::mix(L, 8800 + (uint64_t)mem16)); vp::cls("giant-frame-really-delivered");
        RPMaybeFrame mf; memset(&mf, 0, sizeof mf);
        int rr = regp_recv(&p, &mf); int pr = regp_process(&p, &mf); (void)pr;
        if (mf.frame) regp_free(&p, mf.frame);
        std::vector<Bytes> fr; std::vector<rp::Frame> rs;
        bool ok = rp::split_wire(false, snk.got, fr); for (auto &f : fr) { rp::Frame d; rp::decode(f, d); rs.push_back(d); }
        if (rr < 0) { vp::fail("giant:channel-error", vp::fmt("regp_recv returned %d for a completely delivered frame of %llu octets (source position %llu)", rr, (unsigned long long)L, (unsigned long long)ls.pos), rep); continue; }
        if (mf.error.id == 0 || !be().log.empty()) { vp::fail("giant:overflow-not-detected", vp::fmt("error.id=%d, %zu back-end accesses", mf.error.id, be().log.size()), rep); continue; }
        if (!ok || rs.size() != 1 || !rs[0].is_response() || rs[0].meta != rp::C_ERXOVERFLOW || rs[0].seq != 0x4711 || rs[0].addr != 0x00abcdefu) { vp::fail("giant:no-erxoverflow-reply", vp::fmt("%zu reply frames%s", rs.size(), rs.empty() ? "" : (", first: " + rp::show(rs[0])).c_str()), rep); continue; }
        if (ls.pos != ls.head.size() + ls.body) { vp::fail("giant:stream-position", vp::fmt("receiver consumed %llu octets, the frame ends at %llu", (unsigned long long)ls.pos, (unsigned long long)(ls.head.size() + ls.body)), rep); continue; }
        if (led.outstanding() || led.double_free) { vp::fail("giant:ledger", "allocation ledger unbalanced", rep); continue; }
        // the frame behind it
        snk.got.clear(); memset(&mf, 0, sizeof mf);
        rr = regp_recv(&p, &mf); pr = regp_process(&p, &mf);
        if (mf.frame) regp_free(&p, mf.frame);
        if (rr != 0 || mf.error.id != 0 || be().log.size() != 1) vp::fail("giant:next-frame-not-handled", vp::fmt("the request behind the giant frame: rc=%d error.id=%d accesses=%zu", rr, mf.error.id, be().log.size()), rep);
    }
}
static void run() {
    auto &a = vp::args();
    vp::CaseScope scope([] { return ser(g_cfg, g_stream); });
    bool T = a.thorough();
    vp::stats().rule = "enum: per (transport, memory width, block size; octet sources, chunk sources, chunk sources lending a 2..64-octet buffer through the getbuffer extension): valid write requests of every total length from capacity-20 to capacity+20; read requests with every block size from the "
                       "transmit limit -8 to +8; allocation failure at every allocation (single and pairs) of multi-frame streams; empty frames and frames of 1..11 octets; every truncation point of "
                       "a multi-frame stream; invalid SLIP escapes / over-long varint prefixes inside streams; every frame type x option bits x block size x payload length form in blocks the frame fills exactly (+-1); two frames of 2^31 and 2^32+2^31+10 octets really delivered by a lazily generating lending source; random mutated streams; oracle = reference stream walker + per-frame expectations "
                       "(access count and arguments, resource replies, error ids), allocation ledger, ASan/UBSan, endpoint-call budget";
    vp::Rng rng(a.seed * 19001 + a.shard);
    uint64_t idx = 0;
    auto mine = [&]() { return idx++ % a.nshards == a.shard; };
    std::vector<size_t> extras = {0, 1, 7, 12, 15, 16, 17, 27, 63, 127, 200, 299};
    if (T) for (size_t e = 2; e < 300; e += 9) extras.push_back(e);
    for (int serial = 0; serial < 2; serial++) for (int mem16 = 0; mem16 < 2; mem16++) for (size_t extra : extras) {
        size_t capacity = 1 + extra;
        static const int SRCK[] = {0, 1, 1, 0, 4, 9, 10, 11, 16, 64};
        Config cfg{(bool)serial, (bool)mem16, SRCK[(extra * 7 + (size_t)serial * 3 + (size_t)mem16) % 10], extra, 0};
        // (1) frame lengths around the block boundary
        for (long L = (long)capacity - 20; L <= (long)capacity + 20; L++) {
            if (!mine()) continue;
            long hs = 12 + (serial ? 4 : 0);
            if (L < hs) continue;
            size_t pl = (size_t)(L - hs); bool w16 = mem16 && (pl % 2 == 0);
            if (pl == 0) hs = 12 + (serial ? 2 : 0);
            rp::Frame f = rp::make_request(serial, true, w16, (uint16_t)L, 0x1000u + (uint32_t)L, (uint32_t)(w16 ? pl / 2 : pl), payload(pl, (unsigned)L));
            Bytes s = wire(serial, f);
            Bytes follow = wire(serial, rp::make_request(serial, false, mem16, 9, 0x20, 1, {}));   // the next frame must be handled normally
            s.insert(s.end(), follow.begin(), follow.end());
            run_case(cfg, s, "frame-length-around-capacity");
        }
        // (2) read sizes around the transmit limit
        size_t hs = 12 + (serial ? 2 : 0);
        if (capacity > hs) {
            long limit = (long)((capacity - hs) / (mem16 ? 2 : 1));
            for (long n = limit - 8; n <= limit + 8; n++) {
                if (n < 0 || !mine()) continue;
                run_case(cfg, wire(serial, rp::make_request(serial, false, mem16, (uint16_t)n, 0x4000, (uint32_t)n, {})), "read-size-around-transmit-limit");
            }
        }
        // (2b) the same with every checksum-option combination the receiver accepts (the header in front of the answer is 12..16 octets long)
        for (int hd = 0; hd < 2; hd++) for (int pl = 0; pl < 2; pl++) {
            size_t h2 = 12 + 2 * (size_t)hd + 2 * (size_t)pl;
            if (capacity <= h2) continue;
            long limit = (long)((capacity - h2) / (mem16 ? 2 : 1));
            for (long n = limit - 3; n <= limit + 3; n++) {
                if (n < 0 || !mine()) continue;
                rp::Frame f; f.type = rp::READ_REQ; f.options = (mem16 ? rp::WORD16 : 0) | (hd ? rp::HDCRC : 0) | (pl ? rp::PLCRC : 0); f.seq = (uint16_t)(n * 3 + hd); f.addr = 0x5000 + (uint32_t)n; f.blocksize = (uint32_t)n;
                run_case(cfg, rp::on_wire(serial, rp::encode(f)), "read-size-around-limit-noncanonical-options");
            }
        }
        // (4) empty and short frames
        for (size_t len = 0; len <= 11; len++) {
            if (!mine()) continue;
            Bytes raw = payload(len, 5); if (len >= 2) { raw[0] = 0x02; raw[1] = 0x00; }
            Bytes s = rp::on_wire(serial, raw);
            Bytes follow = wire(serial, rp::make_request(serial, true, mem16, 3, 0x30, 1, payload(mem16 ? 2 : 1, 1)));
            s.insert(s.end(), follow.begin(), follow.end());
            run_case(cfg, s, len == 0 ? "empty-frame" : "short-frame");
        }
    }
    // (3) allocation failure at every allocation, (5) truncation at every point, channel errors
    for (int serial = 0; serial < 2; serial++) for (int mem16 = 0; mem16 < 2; mem16++) {
        std::vector<rp::Frame> fs = {rp::make_request(serial, false, mem16, 1, 0x10, 2, {}), rp::make_request(serial, true, mem16, 2, 0x20, 3, payload(mem16 ? 6 : 3, 9)),
                                     rp::make_meta(serial, 1), rp::make_request(serial, true, !mem16, 3, 0x30, 1, payload(!mem16 ? 2 : 1, 2)), rp::make_request(serial, false, mem16, 0xffff, 0xffffffffu, 0, {})};
        Bytes s; for (auto &f : fs) { Bytes w = wire(serial, f); s.insert(s.end(), w.begin(), w.end()); }
        for (size_t extra : {(size_t)40, (size_t)100}) {
            for (int sk : {1, 0, 2, 3, 4, 5, 7, 9, 10, 11, 13, 16, 17, 40}) for (unsigned i = 0; i < 6; i++) for (unsigned j = i; j < 6; j++) { if (!mine()) continue; run_case({(bool)serial, (bool)mem16, sk, extra, (1ull << i) | (1ull << j)}, s, sk >= 2 ? "allocation-failure:source-lends-buffer" : "allocation-failure"); }
            for (size_t cut = 0; cut <= s.size(); cut++) { if (!mine()) continue; run_case({(bool)serial, (bool)mem16, (int)(cut % 3 == 2 ? 2 + cut % 17 : cut & 1), extra, 0}, Bytes(s.begin(), s.begin() + (long)cut), "stream-ends-inside-frame"); }
            for (size_t at = 0; at < s.size(); at++) {
                if (!mine()) continue;
                Bytes d = s;
                if (serial) { d.insert(d.begin() + (long)at, {0xdb, 0x41}); }                                   // invalid escape
                else { Bytes bad(11, 0xff); d.insert(d.begin() + (long)at, bad.begin(), bad.end()); }          // prefix without terminator (stream loses sync: only generic expectations)
                run_case({(bool)serial, (bool)mem16, (int)(at % 4 == 3 ? 2 + at % 13 : 1), extra, 0}, d, "channel-error-injected");
            }
        }
    }
    // (6) every frame type x option-bit combination x block size x payload length around what the block size announces, received into a
    //     block that the frame fills exactly (and one octet more / less): whatever the verdict, nothing outside the block may be touched
    for (int serial = 0; serial < 2; serial++) for (int mem16 = 0; mem16 < 2; mem16++) for (int type : {0, 1, 2, 3, 15}) for (int opt = 0; opt < 8; opt++)
        for (uint32_t bs : {0u, 1u, 2u, 3u, 4u, 6u, 8u, 16u}) for (int form = 0; form < 4; form++) for (int fit = -1; fit <= 1; fit++) {
            if (!mine()) continue;
            rp::Frame f; f.type = type; f.options = opt; f.meta = type == 15 ? 1 : (type == 1 || type == 3) ? (int)(bs % 12) : 0; f.seq = (uint16_t)(bs * 257 + opt); f.addr = 0x6000 + bs; f.blocksize = bs;
            // payload length: as many octets as the block size counts words / as it counts octets / twice that / four octets (error responses)
            size_t plen = form == 0 ? (size_t)bs * ((opt & 1) ? 2 : 1) : form == 1 ? (size_t)bs : form == 2 ? (size_t)bs * 2 : 4;
            f.payload = payload(plen, bs + (unsigned)opt);
            Bytes raw = rp::encode(f);
            if (raw.size() + (size_t)(fit + 1) < 2) continue;
            Config cfg{(bool)serial, (bool)mem16, (int)(bs % 3 == 2 ? 5 : bs % 2), raw.size() - 1 + (size_t)fit, 0};   // capacity = block_extra + 1
            run_case(cfg, rp::on_wire(serial, raw), "all-types-and-options-in-exact-fit-blocks");
        }
    if (a.shard == a.nshards - 1 && !vp::vg().on) giant_frames();
    // random mutated streams
    size_t nrand = (T ? 400000 : 40000) / a.nshards;
    for (size_t i = 0; i < nrand && !vp::too_many_failures(); i++) {
        bool serial = rng.chance(1, 2), mem16 = rng.chance(1, 2);
        Bytes s; size_t nf = (size_t)rng.range(1, 5);
        for (size_t k = 0; k < nf; k++) {
            uint32_t n = (uint32_t)rng.below(rng.chance(1, 6) ? 120 : 10); bool write = rng.chance(1, 2), w16 = rng.chance(5, 6) ? mem16 : !mem16;
            rp::Frame f = rp::make_request(serial, write, w16, (uint16_t)rng.next(), (uint32_t)rng.next(), n, write ? payload((size_t)n * (w16 ? 2 : 1), (unsigned)rng.next()) : Bytes());
            if (rng.chance(1, 8)) f = rp::make_meta(serial, 1 + (int)rng.below(2));
            Bytes raw = rp::encode(f);
            if (rng.chance(1, 4) && !raw.empty()) { size_t p = rng.below(raw.size()); switch (rng.below(3)) { case 0: raw[p] ^= (uint8_t)(1u << rng.below(8)); break; case 1: raw.erase(raw.begin() + (long)p); break; default: raw.insert(raw.begin() + (long)p, rng.byte()); } }
            Bytes w = rp::on_wire(serial, raw);
            if (rng.chance(1, 12) && !w.empty()) w[rng.below(w.size())] = rng.byte();
            s.insert(s.end(), w.begin(), w.end());
        }
        if (rng.chance(1, 6) && !s.empty()) s.resize(rng.below(s.size()));
        Config cfg{serial, mem16, rng.chance(1, 3) ? (int)rng.range(2, 40) : (int)rng.below(2), (size_t)rng.below(rng.chance(1, 2) ? 60 : 300), rng.chance(1, 4) ? (rng.next() & rng.next() & 0xff) : 0};
        run_case(cfg, s, "random-mutated-stream");
    }
}
static bool replay(const std::string &text) {
    if (text.rfind("giant", 0) == 0) { giant_frames(); return vp::stats().failures.empty(); }
    Config cfg; Bytes s;
    if (!parse(text, cfg, s)) return false;
    vp::CaseScope scope([] { return ser(g_cfg, g_stream); });
    run_case(cfg, s, "replay");
    return vp::stats().failures.empty();
}
VP_MAIN(run, replay)
