// Shared harness parts for the register protocol properties (C06-C09):
// recording memory back-end, ledger allocator, sessions over scripted endpoints.
#pragma once
#include "support/endpoints.hpp"
#include "model/regp_ref.hpp"
#include <ufw/register-protocol.h>

namespace rx {

using rp::Bytes;

// ---- memory back-end (the library's callbacks carry no context pointer)
struct Call { bool write, w16; uint32_t addr; size_t n; Bytes data; };
struct Verdict { int status; uint32_t address; };
struct Backend {
    std::vector<Call> log;
    std::vector<Verdict> script;     // consumed per call; afterwards ACK
    size_t next = 0;
    uint32_t salt = 0;
    Verdict verdict() { if (next < script.size()) return script[next++]; return {rp::C_ACK, 0}; }
    void reset() { log.clear(); script.clear(); next = 0; }
};
inline Backend &be() { static Backend b; return b; }
// memory content: rich in SLIP control octets
inline uint8_t mem_octet(uint32_t addr, uint32_t salt) {
    uint32_t h = (addr + salt) * 2654435761u; h ^= h >> 13;
    switch (h & 7) { case 0: return 0xc0; case 1: return 0xdb; case 2: return 0xdc; case 3: return 0xdd; default: return (uint8_t)(h >> 8); }
}
inline RPBlockAccess to_ba(const Verdict &v) { RPBlockAccess a; a.status = (RPResponse)v.status; a.address = v.address; return a; }
extern "C" inline RPBlockAccess vp_read8(uint32_t addr, size_t n, uint8_t *buf) {
    Verdict v = be().verdict();
    Call c{false, false, addr, n, {}};
    for (size_t i = 0; i < n; i++) { buf[i] = mem_octet(addr + (uint32_t)i, be().salt); c.data.push_back(buf[i]); }   // fills ALL of it: ASan probes the buffer size
    be().log.push_back(c);
    return to_ba(v);
}
extern "C" inline RPBlockAccess vp_write8(uint32_t addr, size_t n, const uint8_t *buf) {
    Verdict v = be().verdict();
    Call c{true, false, addr, n, Bytes(buf, buf + n)};                                                              // reads ALL of it
    be().log.push_back(c);
    return to_ba(v);
}
extern "C" inline RPBlockAccess vp_read16(uint32_t addr, size_t n, uint16_t *buf) {
    Verdict v = be().verdict();
    Call c{false, true, addr, n, {}};
    for (size_t i = 0; i < n; i++) { uint8_t lo = mem_octet(addr * 2 + (uint32_t)i * 2, be().salt), hi = mem_octet(addr * 2 + (uint32_t)i * 2 + 1, be().salt); uint8_t two[2] = {lo, hi}; memcpy(buf + i, two, 2); c.data.push_back(lo); c.data.push_back(hi); }
    be().log.push_back(c);
    return to_ba(v);
}
extern "C" inline RPBlockAccess vp_write16(uint32_t addr, size_t n, const uint16_t *buf) {
    Verdict v = be().verdict();
    Call c{true, true, addr, n, Bytes((const uint8_t *)buf, (const uint8_t *)buf + 2 * n)};
    be().log.push_back(c);
    return to_ba(v);
}

// ---- ledger allocator: exact-size blocks, scriptable failures, exactly-once release
struct Ledger {
    size_t blocksize;
    std::vector<void *> live;
    size_t allocs = 0, frees = 0, failed = 0;
    uint64_t failmask = 0;           // bit i set: the i-th allocation fails
    bool double_free = false;
    BlockAllocator ba;
    // Both allocator flavours the library knows: generic (the block size is passed with every request) and slab (fixed-size blocks, no size
    // argument). Which one a session uses follows from the parity of its block size, so that every harness exercises both without a
    // further case parameter and a serialised case replays with the same flavour.
    explicit Ledger(size_t bs) : blocksize(bs) {
        ba.blocksize = bs; ba.driver = this; ba.free = &Ledger::free_cb;
#ifdef VP_STDHEAP
        // third flavour (targets built with -DVP_STDHEAP and allocator_ledger.o): the library's own heap allocator, exactly what
        // MAKE_STDHEAD_BLOCKALLOC(bs) / rp_default_allocator consist of; its malloc()/free() calls arrive in vp_hmalloc()/vp_hfree() below
        ba.type = UFW_ALLOC_GENERIC; ba.driver = NULL; ba.alloc.generic = ufw_malloc; ba.free = ufw_mfree; prev = current(); current() = this;
        return;
#endif
        if (bs & 1) { ba.type = UFW_ALLOC_SLAB; ba.alloc.slab = &Ledger::slab_cb; }
        else { ba.type = UFW_ALLOC_GENERIC; ba.alloc.generic = &Ledger::alloc_cb; }
    }
    static int slab_cb(void *d, void **m) { return alloc_cb(d, m, ((Ledger *)d)->blocksize); }
    Ledger(const Ledger &) = delete;
    ~Ledger() { for (void *p : live) free(p);
#ifdef VP_STDHEAP
        current() = prev;
#endif
    }
    Ledger *prev = nullptr;
    static Ledger *&current() { static Ledger *c = nullptr; return c; }
    static int alloc_cb(void *d, void **m, size_t n) {
        Ledger *l = (Ledger *)d;
        size_t idx = l->allocs++;
        // a failing allocator reports failure through its return value; what it leaves in *m is its own business: NULL, nothing at all
        // (the caller's variable keeps what it held), or a pointer that must not be used
        if (idx < 64 && (l->failmask >> idx) & 1) { l->failed++; switch ((idx + l->blocksize) % 3) { case 0: *m = nullptr; break; case 1: break; default: *m = (void *)(uintptr_t)0x10; }
            // ... and so is the negative code it fails with: a pool with a timeout answers -EAGAIN, an interrupted one -EINTR
            static const int CODES[4] = {-ENOMEM, -EAGAIN, -EINTR, -EIO};
            return CODES[(idx / 3 + l->blocksize / 4) % 4]; }
        *m = malloc(n);
        memset(*m, 0xd7, n);
        l->live.push_back(*m);
        return 0;
    }
    static void free_cb(void *d, void *m) {
        Ledger *l = (Ledger *)d;
        auto it = std::find(l->live.begin(), l->live.end(), m);
        if (it == l->live.end()) { l->double_free = true; return; }   // not outstanding: double or foreign free (not forwarded to free())
        l->live.erase(it);
        l->frees++;
        free(m);
    }
    size_t outstanding() const { return live.size(); }
};

#ifdef VP_STDHEAP
// the C library heap as the library's allocator sees it. A successful malloc() may leave any value in errno (glibc does when it falls back from
// brk to mmap: the block is good, errno is ENOMEM): every other successful call does so here.
extern "C" __attribute__((used)) void *vp_hmalloc(size_t n) {
    Ledger *l = Ledger::current();
    if (!l) return malloc(n);
    void *m = nullptr;
    int rc = Ledger::alloc_cb(l, &m, n);
    if (rc == 0 && (l->allocs & 1)) errno = ENOMEM;
    if (rc != 0) { errno = ENOMEM; return nullptr; }   // malloc() itself has one way to fail
    return m;
}
extern "C" __attribute__((used)) void vp_hfree(void *m) {
    Ledger *l = Ledger::current();
    if (!l) { free(m); return; }
    Ledger::free_cb(l, m);
}
#endif

// ---- a protocol instance over scripted endpoints
struct Session {
    bool serial, mem16;
    ep::ScriptSource src;
    ep::ScriptSink snk;
    Ledger led;
    RegP p;
    // srckind: 0 octet source, 1 chunk source, k >= 2: chunk source that lends a k-octet scratch buffer (getbuffer extension)
    Session(bool serial_, bool mem16_, size_t blocksize, int srckind = 1, bool chunk_snk = true, Bytes input = {})
        : serial(serial_), mem16(mem16_), src(srckind != 0, std::move(input)), snk(chunk_snk), led(blocksize) {
        if (srckind >= 2) src.lend((size_t)srckind);
        // two documented ways to get a fresh instance: regp_init(), or the static initialiser RP_NEW_INSTANCE completed with the regp_use_*()
        // setters. Which one a session uses follows from bit 1 of its block size (see Ledger for bit 0).
        if (blocksize & 2) { RegP fresh = RP_NEW_INSTANCE; p = fresh; } else regp_init(&p);
        if (mem16) regp_use_memory16(&p, vp_read16, vp_write16); else regp_use_memory8(&p, vp_read8, vp_write8);
        regp_use_channel(&p, serial ? RP_EP_SERIAL : RP_EP_TCP, src.src, snk.snk);
        regp_use_allocator(&p, &led.ba);
    }
    Session(const Session &) = delete;
    void feed(const Bytes &more) { src.data.insert(src.data.end(), more.begin(), more.end()); }
    Bytes take_output() { Bytes o = snk.got; snk.got.clear(); return o; }
};

inline size_t frame_struct_size() { return sizeof(RPFrame); }

// what the library's parsed frame says, in the reference's terms
inline rp::Frame from_lib(const RPFrame *f) {
    rp::Frame r;
    r.version = f->header.version; r.type = (int)f->header.type; r.options = f->header.options; r.meta = (int)f->header.meta.raw;
    r.seq = f->header.sequence; r.addr = f->header.address; r.blocksize = f->header.blocksize; r.hdcrc = f->header.hdcrc; r.plcrc = f->header.plcrc;
    if (f->payload.size) r.payload.assign((const uint8_t *)f->payload.data, (const uint8_t *)f->payload.data + f->payload.size);
    return r;
}
inline std::string same_fields(const rp::Frame &a, const rp::Frame &b) {
    if (a.type != b.type) return "type";
    if (a.options != b.options) return "option-bits";
    if (a.meta != b.meta) return "response-code";
    if (a.seq != b.seq) return "sequence";
    if (a.addr != b.addr) return "address";
    if (a.blocksize != b.blocksize) return "block-size";
    if (a.payload != b.payload) return "payload";
    return "";
}

} // namespace rx
