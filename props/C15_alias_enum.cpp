// C15 — loads of memory the caller wrote through pointers of other types (optimised build, strict aliasing, no sanitizers).
#include "support/vp.hpp"
#include "support/ufw.hpp"
#include "shims/bf_alias.h"
#include "shims/bf_const.h"

static unsigned g_idx; static uint64_t g_x, g_y;
static std::string ser() { return vp::fmt("alias %u %llu %llu\n", g_idx, (unsigned long long)g_x, (unsigned long long)g_y); }
static bool one(unsigned idx, uint64_t x, uint64_t y) {
    g_idx = idx; g_x = x; g_y = y;
    void *mem = aligned_alloc(16, 16);
    memset(mem, 0, 16);
    int ok = vp_alias_probes[idx].run(mem, x, y);
    free(mem);
    vp::count();
    if (!ok) vp::fail(std::string("alias:") + vp_alias_probes[idx].name, vp::fmt("the second load after the caller's typed store of %llx over %llx does not return the new content", (unsigned long long)y, (unsigned long long)x), ser());
    return ok;
}
// ---- compile-time constants: expectation by octet arithmetic from (function name, constant)
static std::string g_crep;
static void const_report(const char *name, uint64_t c, const unsigned char *img, unsigned n, uint64_t result) {
    std::string f = name; g_crep = vp::fmt("const %s %llu\n", name, (unsigned long long)c);
    vp::count();
    auto bad = [&](const std::string &m) { vp::fail(std::string("constant-argument:") + name, m + vp::fmt(" (constant %llx)", (unsigned long long)c), g_crep); };
    if (f.rfind("bf_swap", 0) == 0) {
        unsigned w = (unsigned)atoi(name + 7) / 8; uint64_t v = w == 8 ? c : (c & ((1ull << (8 * w)) - 1)), want = 0;
        for (unsigned i = 0; i < w; i++) want |= ((v >> (8 * i)) & 0xff) << (8 * (w - 1 - i));
        if (result != want) bad(vp::fmt("returned %llx, expected %llx", (unsigned long long)result, (unsigned long long)want));
        return;
    }
    if (f.rfind("bf_set_", 0) == 0) {
        char order = f.back(); uint8_t want[8];
        for (unsigned i = 0; i < n; i++) { uint8_t o = (uint8_t)(c >> (8 * i)); if (order == 'b') want[n - 1 - i] = o; else want[i] = o; }
        if (memcmp(img, want, n) != 0) bad("stored " + vp::hex(img, n) + " expected " + vp::hex(want, n));
        for (unsigned i = n; i < 8; i++) if (img[i] != 0x5c) { bad("octets behind the value changed"); break; }
        return;
    }
    // bf_ref_<k><width><order> of the first n octets of the image
    char order = f.back(), kind = f[7]; uint64_t v = 0;
    for (unsigned i = 0; i < n; i++) v |= (uint64_t)(order == 'b' ? img[n - 1 - i] : img[i]) << (8 * i);
    if (kind == 's' && n < 8 && (v >> (8 * n - 1)) & 1) v |= ~0ull << (8 * n);
    if (result != v) bad(vp::fmt("loaded %llx from %s, expected %llx", (unsigned long long)result, vp::hex(img, n).c_str(), (unsigned long long)v));
}
static void run() {
    auto &a = vp::args();
    if (a.shard == 0) { vp::CaseScope cs([] { return g_crep; }); vp_const_run(const_report); vp::cls("codec-called-with-compile-time-constants"); vp::nontrivial(0xc0457a47ull); }
    vp::CaseScope scope([] { return ser(); });
    vp::stats().rule = "enum: 15 (loader, store type) probes - 64-bit loaders after stores through double / unsigned long long / long long, 32-bit loaders after stores through float / int / unsigned - "
                       "each as store x, load, store y, load in one function compiled at -O2 with strict aliasing and without sanitizers; value pairs: single bits, complements, float patterns, random; and every store / swap with 14 literal constants plus loads from static const images in the same kind of build (constant folding in the header)";
    vp::stats().exhaustive = false;
    vp::Rng rng(a.seed * 31337 + a.shard);
    std::vector<uint64_t> vals = {0, 1, ~0ull, 0x8000000000000000ull, 0x3ff0000000000000ull, 0x7ff8000000000001ull, 0x0123456789abcdefull, 0x00000000ffffffffull, 0x3f8000003f800000ull};
    for (unsigned b = 0; b < 64; b += 3) vals.push_back(1ull << b);
    for (int i = 0; i < 40; i++) vals.push_back(rng.next());
    for (unsigned idx = a.shard; idx < vp_alias_probe_count; idx += a.nshards)
        for (uint64_t x : vals) for (uint64_t y : vals) { if (x == y) continue; if (!one(idx, x, y)) goto next; vp::nontrivial(vp::mix(vp::mix(x, y), idx)); }
    next:;
    vp::cls("typed-store-then-codec-load");
}
static bool replay(const std::string &text) {
    auto w = vp::split(vp::lines(text).at(0));
    if (!w.empty() && w[0] == "const") { vp_const_run(const_report); return vp::stats().failures.empty(); }
    if (w.size() < 4 || w[0] != "alias") return false;
    unsigned idx = (unsigned)atoi(w[1].c_str());
    if (idx >= vp_alias_probe_count) return false;
    return one(idx, strtoull(w[2].c_str(), 0, 10), strtoull(w[3].c_str(), 0, 10));
}
VP_MAIN(run, replay)
