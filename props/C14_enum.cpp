// C14 — varint coding: canonical, lossless, bounded; buffer and source decoders agree.
#include "shims/pp_probes.h"
#include "shims/varint_static.h"
#include "support/vp.hpp"
#include <memory>
#include "support/ufw.hpp"
#include "model/varint.hpp"
#include <ufw/compat/errno.h>
#include <ufw/endpoints.h>
#include <ufw/variable-length-integer.h>

enum K { U32, S32, U64, S64 };
static const char *kname[] = {"u32", "s32", "u64", "s64"};
static size_t maxoct(int k) { return k < 2 ? 5 : 10; }
static unsigned bits(int k) { return k < 2 ? 32 : 64; }

struct OctSrc { const uint8_t *p; size_t n, pos; };
static int octsrc_cb(void *d, void *out) {
    OctSrc *s = (OctSrc *)d;
    if (s->pos >= s->n) return -ENODATA;
    *(unsigned char *)out = s->p[s->pos++];
    return 1;
}

static int enc_buf(int k, ByteBuffer *b, uint64_t raw) {
    switch (k) { case U32: return varint_encode_u32(b, (uint32_t)raw); case S32: return varint_encode_s32(b, (int32_t)(uint32_t)raw);
                 case U64: return varint_encode_u64(b, raw); default: return varint_encode_s64(b, (int64_t)raw); }
}
static int enc_sink(int k, Sink *s, uint64_t raw) {
    switch (k) { case U32: return varint_u32_to_sink(s, (uint32_t)raw); case S32: return varint_s32_to_sink(s, (int32_t)(uint32_t)raw);
                 case U64: return varint_u64_to_sink(s, raw); default: return varint_s64_to_sink(s, (int64_t)raw); }
}
static size_t len_q(int k, uint64_t raw) {
    switch (k) { case U32: return varint_u32_length((uint32_t)raw); case S32: return varint_s32_length((int32_t)(uint32_t)raw);
                 case U64: return varint_u64_length(raw); default: return varint_s64_length((int64_t)raw); }
}
// decoders return the raw two's complement image of the value
static int dec_buf(int k, ByteBuffer *b, uint64_t *raw) {
    switch (k) {
    case U32: { uint32_t v = 0; int rc = varint_decode_u32(b, &v); *raw = v; return rc; }
    case S32: { int32_t v = 0; int rc = varint_decode_s32(b, &v); *raw = (uint32_t)v; return rc; }
    case U64: { uint64_t v = 0; int rc = varint_decode_u64(b, &v); *raw = v; return rc; }
    default: { int64_t v = 0; int rc = varint_decode_s64(b, &v); *raw = (uint64_t)v; return rc; }
    }
}
// decode into a caller-chosen location (which may be part of the buffer that is being decoded: a frame parsed in place)
static int dec_buf_into(int k, ByteBuffer *b, void *out) {
    switch (k) {
    case U32: return varint_decode_u32(b, (uint32_t *)out);
    case S32: return varint_decode_s32(b, (int32_t *)out);
    case U64: return varint_decode_u64(b, (uint64_t *)out);
    default: return varint_decode_s64(b, (int64_t *)out);
    }
}
static int dec_src(int k, Source *s, uint64_t *raw) {
    switch (k) {
    case U32: { uint32_t v = 0; int rc = varint_u32_from_source(s, &v); *raw = v; return rc; }
    case S32: { int32_t v = 0; int rc = varint_s32_from_source(s, &v); *raw = (uint32_t)v; return rc; }
    case U64: { uint64_t v = 0; int rc = varint_u64_from_source(s, &v); *raw = v; return rc; }
    default: { int64_t v = 0; int rc = varint_s64_from_source(s, &v); *raw = (uint64_t)v; return rc; }
    }
}

static std::string ser_enc(int k, uint64_t raw) { return vp::fmt("enc %s %llu\n", kname[k], (unsigned long long)raw); }
static std::string ser_dec(int k, const uint8_t *p, size_t n, size_t prefix) { return vp::fmt("dec %s %s %zu\n", kname[k], n ? vp::hex(p, n).c_str() : "-", prefix); }

#ifdef VP_FAST
static const bool FAST = true;
#else
static const bool FAST = false;
#endif

// the case in flight, for the crash dump
static struct { int mode, k; uint64_t raw; const uint8_t *s; size_t n, prefix; } g_cur;
static std::string ser_cur() { return g_cur.mode == 0 ? ser_enc(g_cur.k, g_cur.raw) : ser_dec(g_cur.k, g_cur.s, g_cur.n, g_cur.prefix); }

// ---- one value through every encoder / decoder
static bool check_value(int k, uint64_t raw) {
    if (k < 2) raw &= 0xffffffffull;
    g_cur.mode = 0; g_cur.k = k; g_cur.raw = raw;
    std::vector<uint8_t> want = ref::varint_encode(raw);
    size_t M = maxoct(k);
    auto F = [&](const char *key, const std::string &msg) { vp::fail(std::string("encode:") + key, msg + " " + kname[k], ser_enc(k, raw)); return false; };
    if (want.size() > M) return F("reference", "reference longer than the maximum?!");
    uint8_t stackmem[16];
    uint8_t *mem = FAST ? stackmem : (uint8_t *)malloc(M);   // exact size: the documented minimum the encoder asks for
    memset(mem, 0xa5, M);
    ByteBuffer b; byte_buffer_space(&b, mem, M);
    bool ok = true;
    int rc = enc_buf(k, &b, raw);
    if (rc != (int)want.size()) ok = F("return", vp::fmt("encode returned %d, reference length %zu", rc, want.size()));
    else if (b.used != want.size() || memcmp(mem, want.data(), want.size()) != 0) ok = F("octets", "encoded octets differ from the minimal LEB128 form");
    if (len_q(k, raw) != want.size()) ok = F("length-query", vp::fmt("length query %zu vs %zu", len_q(k, raw), want.size()));
    // to sink
    uint8_t sinkmem[16]; ByteBuffer sb; byte_buffer_space(&sb, sinkmem, sizeof sinkmem);
    Sink sink; sink_to_buffer(&sink, &sb);
    rc = enc_sink(k, &sink, raw);
    if (rc != (int)want.size() || sb.used != want.size() || memcmp(sinkmem, want.data(), want.size()) != 0) ok = F("to-sink", "to_sink emitted other octets / count");
    // to a sink whose driver, before it takes the chunk, writes a record header of its own: another varint (its complement) into a second sink.
    // (A length-delimiting record sink does exactly this; the encoder must not keep the octets it is still sending where the nested call puts its own.)
    {
        struct Nest { int k; uint64_t other; uint8_t outer[24]; size_t on = 0; uint8_t inner[24]; ByteBuffer ib; Sink isink; int inner_rc = 0; bool done = false; } nest;
        nest.k = k; nest.other = ~raw & (k < 2 ? 0xffffffffull : ~0ull);
        byte_buffer_space(&nest.ib, nest.inner, sizeof nest.inner); sink_to_buffer(&nest.isink, &nest.ib);
        Sink outer;
        chunk_sink_init(&outer, [](void *d, const void *p, size_t n) -> ssize_t {
            Nest *x = (Nest *)d;
            if (!x->done) { x->done = true; x->inner_rc = enc_sink(x->k, &x->isink, x->other); }
            if (x->on + n > sizeof x->outer) return -ENOMEM;
            memcpy(x->outer + x->on, p, n); x->on += n;
            return (ssize_t)n;
        }, &nest);
        rc = enc_sink(k, &outer, raw);
        std::vector<uint8_t> want2 = ref::varint_encode(nest.other);
        if (rc != (int)want.size() || nest.on != want.size() || memcmp(nest.outer, want.data(), want.size()) != 0) ok = F("to-sink-nested:outer", "a sink driver that encodes another varint before taking the chunk received other octets than the encoding");
        else if (nest.inner_rc != (int)want2.size() || nest.ib.used != want2.size() || memcmp(nest.inner, want2.data(), want2.size()) != 0) ok = F("to-sink-nested:inner", "the varint encoded from inside the sink driver is wrong");
    }
    // decode the encoding: exact-size buffer
    uint8_t *ex = FAST ? stackmem : (uint8_t *)malloc(want.size());
    memcpy(ex, want.data(), want.size());
    ByteBuffer db; byte_buffer_use(&db, ex, want.size());
    uint64_t got = ~raw;
    rc = dec_buf(k, &db, &got);
    if (rc != (int)want.size() || got != raw || db.offset != want.size()) ok = F("roundtrip-buffer", vp::fmt("buffer decode rc=%d value=%llx offset=%zu", rc, (unsigned long long)got, db.offset));
    OctSrc os{ex, want.size(), 0}; Source src; octet_source_init(&src, octsrc_cb, &os);
    got = ~raw;
    rc = dec_src(k, &src, &got);
    if (rc != (int)want.size() || got != raw || os.pos != want.size()) ok = F("roundtrip-source", vp::fmt("source decode rc=%d value=%llx consumed=%zu", rc, (unsigned long long)got, os.pos));
    // the same through a C caller whose channel state lives in file-scope statics (shims/varint_static.c)
    {
        unsigned char out16[16]; size_t outlen = 99; uint64_t g2 = ~raw; size_t consumed = 99;
        int r1 = vp_vstatic_encode(k, raw, out16, &outlen);
        if (r1 != (int)want.size() || outlen != want.size() || memcmp(out16, want.data(), want.size()) != 0) ok = F("static-caller:to-sink", vp::fmt("a C caller with file-static channel state: to_sink returned %d, its driver holds %zu octets", r1, outlen));
        int r2 = vp_vstatic_decode(k, ex, want.size(), &g2, &consumed);
        if (r2 != (int)want.size() || g2 != raw || consumed != want.size()) ok = F("static-caller:from-source", vp::fmt("a C caller with file-static channel state: from_source rc=%d value=%llx, its driver saw %zu octets consumed", r2, (unsigned long long)g2, consumed));
    }
    if (!FAST) { free(mem); free(ex); }
    return ok;
}

// ---- one octet string through both decoders
// prefixarg: low octet = number of junk octets in front of the string (offset), bit 8 = the buffer is presented the way byte_buffer_space()
// users do it: fill mark 0, so that with an offset the fill mark lies below the read position (the suite decodes from such buffers)
static bool check_string(int k, const uint8_t *s, size_t n, size_t prefixarg) {
    size_t prefix = prefixarg & 0xff; bool space_style = prefixarg & 0x100, readonly = prefixarg & 0x200;   // bit 9: the memory is read-only (a const table, a read-only mapping)
    size_t M = maxoct(k);
    g_cur.mode = 1; g_cur.k = k; g_cur.s = s; g_cur.n = n; g_cur.prefix = prefixarg;
    ref::VarintResult r = ref::varint_decode(s, n, M, bits(k));
    auto F = [&](const char *key, const std::string &msg) { vp::fail(std::string("decode:") + key, msg + " " + kname[k], ser_dec(k, s, n, prefixarg)); return false; };
    bool ok = true;
    // exact-size block = prefix junk + string; buffer ends with the string (used == size)
    size_t total = prefix + n;
    uint8_t arena[64];
    uint8_t *mem;
    std::unique_ptr<vp::RoBlock> ro;
    if (FAST) { memset(arena, 0, sizeof arena); mem = arena; }   // zeros behind the buffer: an over-reading decoder would "succeed"
    else mem = (uint8_t *)malloc(total ? total : 1);
    for (size_t i = 0; i < prefix; i++) mem[i] = 0x80;
    if (n) memcpy(mem + prefix, s, n);
    if (readonly && !FAST && total) { ro.reset(new vp::RoBlock(mem, total)); if (ro->p) { free(mem); mem = ro->p; } else ro.reset(); }
    ByteBuffer b;
    b.data = mem; b.size = total; b.used = space_style ? 0 : total; b.offset = prefix;
    uint64_t vb = 0, vs = 0;
    int rb = (total == 0) ? -1 : dec_buf(k, &b, &vb);
    OctSrc os{s, n, 0}; Source src; octet_source_init(&src, octsrc_cb, &os);
    int rs = dec_src(k, &src, &vs);
    if (total && !FAST && n) {
        // in place: the result variable is the memory the varint itself starts in (a receive frame overlaid with its parsed form). The buffer
        // decoder reads all the octets it needs before it stores the result, so verdict, value and consumed count are those of a separate variable.
        size_t w = k < 2 ? 4 : 8;
        uint8_t *raw2 = (uint8_t *)malloc(total + 2 * 8 + w);
        uint8_t *base = raw2 + ((8 - ((uintptr_t)(raw2 + prefix) & 7)) & 7);      // base + prefix is 8-aligned
        memset(raw2, 0x80, total + 2 * 8 + w);
        memcpy(base + prefix, s, n);
        ByteBuffer b2; b2.data = base; b2.size = total; b2.used = space_style ? 0 : total; b2.offset = prefix;
        int r2 = dec_buf_into(k, &b2, base + prefix);
        uint64_t v2 = 0; if (w == 4) { uint32_t t32; memcpy(&t32, base + prefix, 4); v2 = t32; } else memcpy(&v2, base + prefix, 8);
        if (r2 != rb || (rb > 0 && (v2 != vb || b2.offset != b.offset))) ok = F("in-place-differs", vp::fmt("decoding into the memory the varint starts in: rc=%d value=%llx offset=%zu; into a separate variable: rc=%d value=%llx offset=%zu", r2, (unsigned long long)v2, b2.offset, rb, (unsigned long long)vb, b.offset));
        free(raw2);
    }
    if (total == 0) rb = rs < 0 ? -1 : 0;   // a zero-size ByteBuffer cannot be constructed; nothing to compare
    {   // and through the C caller with file-static channel state: same verdict, value and consumed count as the harness's own source
        uint64_t v3 = 0; size_t c3 = 99; int r3 = vp_vstatic_decode(k, s, n, &v3, &c3);
        if (r3 != rs || c3 != os.pos || (rs > 0 && v3 != vs)) ok = F("static-caller:disagrees", vp::fmt("a C caller with file-static channel state gets rc=%d value=%llx consumed=%zu; a context-pointer driver gets rc=%d value=%llx consumed=%zu", r3, (unsigned long long)v3, c3, rs, (unsigned long long)vs, os.pos));
    }
    switch (r.verdict) {
    case ref::VI_OK:
        if (rb != (int)r.count) ok = F("buffer-count", vp::fmt("buffer decoder rc=%d, terminator after %zu octets", rb, r.count));
        else if (b.offset != prefix + r.count) ok = F("buffer-offset", "offset not advanced by the consumed count");
        if (rs != (int)r.count || os.pos != r.count) ok = F("source-count", vp::fmt("source decoder rc=%d consumed=%zu, terminator after %zu octets", rs, os.pos, r.count));
        if (rb > 0 && rs > 0 && vb != vs) ok = F("disagree-value", vp::fmt("buffer %llx vs source %llx", (unsigned long long)vb, (unsigned long long)vs));
        if (r.fits && rb > 0 && vb != r.value) ok = F("buffer-value", vp::fmt("value %llx, reference %llx", (unsigned long long)vb, (unsigned long long)r.value));
        if (r.fits && rs > 0 && vs != r.value) ok = F("source-value", vp::fmt("value %llx, reference %llx", (unsigned long long)vs, (unsigned long long)r.value));
        break;
    case ref::VI_ILSEQ:
        if (rb != -EILSEQ) ok = F("buffer-ilseq", vp::fmt("no terminator within %zu octets, buffer decoder rc=%d", M, rb));
        if (rs != -EILSEQ) ok = F("source-ilseq", vp::fmt("no terminator within %zu octets, source decoder rc=%d", M, rs));
        break;
    case ref::VI_TRUNCATED:
        if (rb >= 0) ok = F("buffer-truncated-accepted", vp::fmt("varint cut off by the end of the buffer accepted, rc=%d", rb));
        else if (total && b.offset != prefix) ok = F("buffer-truncated-consumed", "failed decode moved the offset");
        if (rs >= 0) ok = F("source-truncated-accepted", vp::fmt("source ended inside the varint but decoder returned %d", rs));
        break;
    }
    if (!FAST && !ro) free(mem);
    return ok;
}

static const uint8_t ALPHA[6] = {0x00, 0x01, 0x7f, 0x80, 0x81, 0xff};

static void strings_upto(size_t minlen, size_t maxlen) {
    auto &a = vp::args();
    uint64_t idx = 0;
    uint8_t s[16];
    for (size_t len = minlen; len <= maxlen; len++) {
        uint64_t total = 1; for (size_t i = 0; i < len; i++) total *= 6;
        for (uint64_t code = 0; code < total; code++, idx++) {
            if (idx % a.nshards != a.shard) continue;
            uint64_t c = code; bool term = false; size_t firstterm = len;
            for (size_t i = 0; i < len; i++) { s[i] = ALPHA[c % 6]; c /= 6; if (!(s[i] & 0x80) && !term) { term = true; firstterm = i; } }
            for (int k = 0; k < 4; k++) {
                // the first maxoct octets decide everything; skip strings that only differ behind max+1 (counted once)
                vp::count();
                { static const size_t PFX[6] = {1, 0x100, 0, 0x101, 0, 0x102}; check_string(k, s, len, PFX[code % 6] | (code % 13 == 5 ? 0x200 : 0)); }
            }
            bool nontrivial = !term || firstterm >= 5 || (firstterm > 0 && s[firstterm] == 0x00);   // truncated / over-long / non-canonical
            if (nontrivial) vp::nontrivial(vp::mix(code, len));
            if (!term) vp::cls(len >= 10 ? "no-terminator-ilseq-64" : (len >= 5 ? "no-terminator-ilseq-32-truncated-64" : "truncated"));
            else if (firstterm > 0 && s[firstterm] == 0x00) vp::cls("non-canonical");
            else vp::cls("terminated");
            if (vp::want_sample()) vp::sample(ser_dec(0, s, len, 0));
            if (vp::too_many_failures()) return;
        }
    }
}

static std::vector<uint64_t> boundary_values() {
    std::vector<uint64_t> v = {0, 1, 127, 128, 255, 256, 1234, 16383, 16384, 0x7fffffffull, 0x80000000ull, 0xffffffffull, 0x100000000ull,
                               0x7fffffffffffffffull, 0x8000000000000000ull, 0xffffffffffffffffull, (uint64_t)-128, (uint64_t)-1234, (uint64_t)(int64_t)INT32_MIN};
    for (unsigned g = 1; g <= 9; g++) for (int d = -1; d <= 1; d++) v.push_back((1ull << (7 * g)) + (uint64_t)d);
    for (unsigned b = 0; b < 64; b++) { v.push_back(1ull << b); v.push_back(~(1ull << b)); v.push_back((1ull << b) - 1); }
    return v;
}

static void run() {
    auto &a = vp::args();
    if (a.shard == 0) vp::pp_phase(vp_pp_varint, "varint");
    vp::CaseScope scope(ser_cur);
    vp::Rng rng(a.seed * 104729 + a.shard);
    if (!FAST) {
        size_t maxlen = a.thorough() ? 9 : 8;
        vp::stats().rule = vp::fmt("enum: boundary values (7-bit group edges +-1, single bits, sign edges) and all values with <=2 non-zero bytes + random values through all four "
                                   "encoders/decoders; all octet strings of length <= %zu over {00,01,7f,80,81,ff} through buffer and source decoders of all four kinds, "
                                   "each in an exact-size heap block ending at the string's last octet, presented as a filled buffer (used == size) and the way byte_buffer_space() users do (fill mark 0, below the read offset)", maxlen);
        vp::stats().exhaustive = true;
        if (a.shard == 0) {
            for (uint64_t v : boundary_values()) for (int k = 0; k < 4; k++) { vp::count(); check_value(k, v); if (ref::varint_encode(k < 2 ? (v & 0xffffffffull) : v).size() >= 2) vp::nontrivial(vp::mix(v, k + 100)); }
            vp::cls("boundary-values", boundary_values().size() * 4);
        }
        // all 32-bit values with at most two non-zero bytes
        uint64_t idx = 0;
        for (int p = 0; p < 4; p++) for (int q = p; q < 4; q++)
            for (uint32_t x = 0; x < 256; x++) for (uint32_t y = (p == q ? 0 : 1); y < (p == q ? 1u : 256u); y++, idx++) {
                if (idx % a.nshards != a.shard) continue;
                uint32_t v = (x << (8 * p)) | (y << (8 * q));
                for (int k = 0; k < 2; k++) { vp::count(); check_value(k, v); }
                if (v >= 128) vp::nontrivial(vp::mix(v, 7));
                vp::cls("two-byte-values");
            }
        size_t nrand = a.thorough() ? 2000000 : 120000;
        for (size_t i = 0; i < nrand / a.nshards; i++) {
            uint64_t v = rng.next() >> (rng.below(64));   // every magnitude
            if (rng.chance(1, 4)) v = (uint64_t)-(int64_t)v;
            int k = (int)rng.below(4);
            vp::count(); check_value(k, v); vp::cls("random-values");
            if (ref::varint_encode(k < 2 ? (v & 0xffffffffull) : v).size() >= 2) vp::nontrivial(vp::mix(v, k));
            VP_SAMPLE(ser_enc(k, v));
        }
        strings_upto(0, maxlen);
        // random strings over the full octet alphabet
        for (size_t i = 0; i < nrand / a.nshards / 4; i++) {
            uint8_t s[16]; size_t len = (size_t)rng.range(1, 12);
            for (size_t j = 0; j < len; j++) s[j] = rng.chance(1, 3) ? (rng.byte() | 0x80) : rng.byte();
            for (int k = 0; k < 4; k++) { vp::count(); check_string(k, s, len, rng.below(3) | (rng.below(3) == 0 ? 0x100 : 0)); }
            vp::cls("random-strings");
        }
    } else {
        // thorough only (unsanitized build): all 2^32 values for u32 and s32; strings of length 10..11
        vp::stats().rule = "enum(fast): all 2^32 values through the u32 and s32 encoders/decoders; all strings of length 10..11 over the 6-octet alphabet "
                           "(zeros placed behind the buffer so that an over-reading decoder is caught by its verdict)";
        vp::stats().exhaustive = true;
        uint64_t lo = (1ull << 32) / a.nshards * a.shard, hi = (a.shard + 1 == a.nshards) ? (1ull << 32) : (1ull << 32) / a.nshards * (a.shard + 1);
        bool ok = true;
        for (uint64_t v = lo; v < hi && ok; v++) { ok = check_value(U32, v) && check_value(S32, v); if ((v & 0xfffff) == 0) vp::alive(); }
        vp::count(2 * (hi - lo)); vp::cls("all-32-bit-values", 2 * (hi - lo));
        for (uint64_t v = lo; v < hi; v += 4099) vp::nontrivial(v);   // a thinned fingerprint set; every value >= 128 is non-trivial
        strings_upto(10, 11);
    }
}
static bool replay(const std::string &text) {
    if (text.rfind("pp ", 0) == 0) { vp::pp_phase(vp_pp_varint, "varint"); return vp::stats().failures.empty(); }
    auto w = vp::split(vp::lines(text).at(0));
    if (w.size() < 3) return false;
    int k = -1; for (int i = 0; i < 4; i++) if (w[1] == kname[i]) k = i;
    if (k < 0) return false;
    vp::CaseScope scope(ser_cur);
    if (w[0] == "enc") return check_value(k, strtoull(w[2].c_str(), 0, 10));
    if (w[0] == "dec" && w.size() >= 4) { auto s = w[2] == "-" ? std::vector<uint8_t>() : vp::unhex(w[2]); return check_string(k, s.data(), s.size(), strtoull(w[3].c_str(), 0, 10)); }
    return false;
}
VP_MAIN(run, replay)
