// C11 — interrupted or failing stores never validate a mixed image silently (fault enumeration).
#include "props/C10.hpp"
#include <memory>
using namespace ps;

// op: 0 store 1 store_part 2 validate 3 fetch 4 fetch_part 5 reset
struct Case { Config cfg; uint64_t seed; int mode; int op; size_t off, len; long point; int fkind; };   // mode 0 crash (point = octets accepted) 1 fault (point = call index)
static Case g_cur;
static const char *opn[] = {"store", "store_part", "validate", "fetch", "fetch_part", "reset"};
static std::string serc(const Case &c) { return ser(c.cfg) + vp::fmt(" seed %llu mode %d op %d %zu %zu point %ld kind %d\n", (unsigned long long)c.seed, c.mode, c.op, c.off, c.len, c.point, c.fkind); }
static void F(const Case &c, const std::string &key, const std::string &msg) { vp::fail(std::string(c.mode == 0 ? "crash:" : "fault:") + opn[c.op] + ":" + key, msg + " [" + ser(c.cfg) + "]", serc(c)); }

static void images(const Case &c, Bytes &oldimg, Bytes &newpart) {
    vp::Rng rng(c.seed ^ vp::fnv(ser(c.cfg)) ^ (c.off * 131 + c.len));
    oldimg.resize(c.cfg.size); for (auto &b : oldimg) b = rng.byte();
    newpart.resize(c.op == 0 ? c.cfg.size : c.len); for (auto &b : newpart) b = rng.byte();
    // every third seed: records that end in padding (zeros, or ff) - the tail then adds little or nothing to a running checksum
    if (c.seed % 3 == 2) { uint8_t pad = (c.seed % 2) ? 0x00 : 0xff; for (size_t i = c.cfg.size / 2; i < oldimg.size(); i++) oldimg[i] = pad; for (size_t i = newpart.size() / 2; i < newpart.size(); i++) newpart[i] = pad; }
    if (c.seed % 3 == 1) { for (size_t i = c.cfg.size / 3; i < oldimg.size(); i++) oldimg[i] = 0; }
}

// establish a valid previous image directly on the medium (reference checksum, native order)
static void install(const Config &cfg, const Bytes &img) {
    M().reset_pattern();
    memcpy(M().mem + cfg.data_addr(), img.data(), cfg.size);
    uint32_t s = ref_sum(cfg, img.data());
    if (cfg.cs == 2) memcpy(M().mem + cfg.place, &s, 4); else { uint16_t s16 = (uint16_t)s; memcpy(M().mem + cfg.place, &s16, 2); }
}

// the caller may stage the data to store in the instance's own auxiliary buffer (a fetch-modify-store cycle through the scratch memory):
// fault kinds 20/21 (= 0/1 with that aliasing) place the new part there whenever it fits
static const uint8_t *staged(const Case &c, Instance &in, const Bytes &newpart) {
    if (c.fkind >= 20 && in.aux && c.cfg.aux >= (long)newpart.size() && !newpart.empty()) { memcpy(in.aux, newpart.data(), newpart.size()); return in.aux; }
    return newpart.data();
}
static PersistentAccess do_op(const Case &c, Instance &in, const Bytes &newpart, uint8_t *dst) {
    switch (c.op) {
    case 0: return persistent_store(&in.st, staged(c, in, newpart));
    case 1: return persistent_store_part(&in.st, staged(c, in, newpart), c.off, c.len);
    case 2: return persistent_validate(&in.st);
    case 3: return persistent_fetch(dst, &in.st);
    case 4: return persistent_fetch_part(dst, &in.st, c.off, c.len);
    default: return persistent_reset(&in.st, 0x5a);
    }
}

// returns the number of crash points / call indices that exist for this operation (from a clean run)
static bool clean_run(const Case &c, size_t &octets, size_t &calls, std::vector<size_t> &boundaries) {
    Bytes oldimg, newpart; images(c, oldimg, newpart);
    install(c.cfg, oldimg);
    Instance in(c.cfg);
    M().clear_run();
    vp::Block dst(c.cfg.size + 1);
    PersistentAccess rc;
    if (VP_BUDGET(64 + 8 * c.cfg.size)) { rc = do_op(c, in, newpart, dst.p); vp::budget().armed = false; } else return false;
    octets = M().octets_written; calls = M().calls; boundaries = M().write_boundaries;
    return rc == PERSISTENT_ACCESS_SUCCESS;
}

static void run_crash(const Case &c) {
    g_cur = c;
    Bytes oldimg, newpart; images(c, oldimg, newpart);
    Bytes newimg = oldimg;
    if (c.op == 0) newimg = newpart; else memcpy(newimg.data() + c.off, newpart.data(), c.len);
    install(c.cfg, oldimg);
    bool boundary = false;
    {
        Instance in(c.cfg);
        M().clear_run();
        M().crash_budget = c.point;
        if (setjmp(M().crash_jb) == 0) {
            if (VP_BUDGET(64 + 8 * c.cfg.size)) { do_op(c, in, newpart, nullptr); vp::budget().armed = false; }
            else { F(c, "no-progress", "store keeps calling the medium"); return; }
        }
        vp::budget().armed = false;
        // was the cut at whole-write granularity?
        boundary = (c.point == 0);
        for (size_t b : M().write_boundaries) if ((long)b == c.point && M().octets_written == b) boundary = true;
    }
    // power comes back: a fresh instance over the same medium
    Instance in2(c.cfg);
    M().clear_run();
    PersistentAccess v = persistent_validate(&in2.st);
    vp::count();
    bool consistent = medium_consistent(c.cfg);
    if (v == PERSISTENT_ACCESS_SUCCESS && !consistent) { F(c, "mixed-image-validates", vp::fmt("validate succeeds although checksum %x does not match the data on the medium (%x)", medium_sum(c.cfg), ref_sum(c.cfg, M().mem + c.cfg.data_addr()))); return; }
    if (v == PERSISTENT_ACCESS_INVALID_DATA && consistent) { F(c, "consistent-image-rejected", "validate rejects a medium whose checksum matches its data"); return; }
    if (v != PERSISTENT_ACCESS_SUCCESS && v != PERSISTENT_ACCESS_INVALID_DATA) { F(c, "validate-error", "validate on a healthy medium reports an access error"); return; }
    if (v == PERSISTENT_ACCESS_SUCCESS && boundary) {
        vp::Block out(c.cfg.size);
        PersistentAccess f = persistent_fetch(out.p, &in2.st);
        if (f != PERSISTENT_ACCESS_SUCCESS) { F(c, "fetch-after-cut", "fetch fails on a healthy medium"); return; }
        bool isold = memcmp(out.p, oldimg.data(), c.cfg.size) == 0, isnew = memcmp(out.p, newimg.data(), c.cfg.size) == 0;
        if (!isold && !isnew) { F(c, "validated-image-neither-old-nor-new", "after a cut at whole-write granularity the validated image is neither the previous nor the new one"); return; }
        vp::cls(isnew ? "cut-validates-new" : "cut-validates-old");
    } else vp::cls(v == PERSISTENT_ACCESS_SUCCESS ? "torn-cut-validates" : "cut-detected-invalid");
}

// mode 2: a full store onto a medium that acknowledges every write in full but, at one write call, keeps something else (fault kinds 30: one bit
// does not take, 31: only the first half of the block is programmed). Nobody reports an error. What a fresh instance validates afterwards is the
// previous image or the new one - never a blend that merely happens to carry a matching checksum because the checksum was derived from it.
static void run_silent(const Case &c) {
    g_cur = c;
    Bytes oldimg, newpart; images(c, oldimg, newpart);
    install(c.cfg, oldimg);
    {
        Instance in(c.cfg);
        M().clear_run();
        if (persistent_validate(&in.st) != PERSISTENT_ACCESS_SUCCESS) { F(c, "harness:previous-image-invalid", "the installed previous image does not validate"); return; }
        M().clear_run();
        M().fault_at = c.point; M().fault_kind = c.fkind;
        if (VP_BUDGET(64 + 8 * c.cfg.size)) { (void)persistent_store(&in.st, newpart.data()); vp::budget().armed = false; } else { F(c, "no-progress", "store keeps calling the medium"); return; }
    }
    vp::count();
    if (!M().silent_applied) { vp::stats().dontcare++; return; }
    Instance in2(c.cfg);
    M().clear_run();
    PersistentAccess v = persistent_validate(&in2.st);
    if (v != PERSISTENT_ACCESS_SUCCESS) { vp::cls("silently-altered-write-detected-invalid"); return; }
    vp::Block out(c.cfg.size);
    if (persistent_fetch(out.p, &in2.st) != PERSISTENT_ACCESS_SUCCESS) { F(c, "fetch-after-silent-fault", "fetch fails on a healthy medium"); return; }
    bool isold = memcmp(out.p, oldimg.data(), c.cfg.size) == 0, isnew = memcmp(out.p, newpart.data(), c.cfg.size) == 0;
    // the checksum a correct store leaves is the new image's; a blend that happens to have the same checksum (the 16-bit sum collides easily)
    // validates through no fault of the library - what must not happen is a checksum derived from the blend itself
    if (!isold && !isnew && medium_sum(c.cfg) == ref_sum(c.cfg, newpart.data())) { vp::stats().dontcare++; vp::cls("silently-altered-write-collides-with-the-new-checksum"); return; }
    if (!isold && !isnew) { F(c, "silently-altered-image-validates", vp::fmt("the medium kept %s at write call %ld of a full store; afterwards a fresh instance validates an image that is neither the previous nor the new one", c.fkind == 30 ? "one bit of the block unchanged" : "only the first half of the block", c.point)); return; }
    vp::cls("silently-altered-write-harmless");
}

static void run_fault(const Case &c) {
    g_cur = c;
    Bytes oldimg, newpart; images(c, oldimg, newpart);
    install(c.cfg, oldimg);
    Instance in(c.cfg);
    // the instance has seen the valid previous image before the faulty operation (whatever it remembers must not outlive the failure)
    M().clear_run();
    if (persistent_validate(&in.st) != PERSISTENT_ACCESS_SUCCESS) { F(c, "harness:previous-image-invalid", "the installed previous image does not validate"); return; }
    M().clear_run();
    M().fault_at = c.point; M().fault_kind = c.fkind % 10;   // 10..: re-entrant driver, 20..: source staged in the aux buffer
    // fault kinds 10..14: as 0..4, but the driver is re-entrant: before it answers the faulty call it validates a second, valid record
    // (a mirror kept behind the instance's region on the same medium) through the library - successfully
    static PersistentStorage *mirror_st; static PersistentAccess mirror_rc;
    Config mc = c.cfg; mc.place = c.cfg.data_addr() + (uint32_t)c.cfg.size + 16; mc.aux = -1; mc.order = 0;
    std::unique_ptr<Instance> mirror;
    if (c.fkind >= 10 && c.fkind < 20) {
        uint32_t lo = M().lo, hi = M().hi;
        Bytes mimg(mc.size); for (size_t i = 0; i < mimg.size(); i++) mimg[i] = (uint8_t)(0x41 + 3 * i);
        memcpy(M().mem + mc.data_addr(), mimg.data(), mc.size);
        uint32_t s = ref_sum(mc, mimg.data());
        if (mc.cs == 2) memcpy(M().mem + mc.place, &s, 4); else { uint16_t s16 = (uint16_t)s; memcpy(M().mem + mc.place, &s16, 2); }
        mirror.reset(new Instance(mc));
        M().lo = lo; M().hi = hi;                 // the region under observation stays the primary's
        mirror_st = &mirror->st; mirror_rc = PERSISTENT_ACCESS_IO_ERROR;
        M().nested = [] { mirror_rc = persistent_validate(mirror_st); };
    }
    vp::Block dst(c.cfg.size + 1);
    PersistentAccess rc;
    if (VP_BUDGET(64 + 8 * c.cfg.size)) { rc = do_op(c, in, newpart, dst.p); vp::budget().armed = false; } else { F(c, "no-progress", "operation keeps calling the medium after a fault"); return; }
    if (c.fkind >= 10 && c.fkind < 20 && M().nested_ran && mirror_rc != PERSISTENT_ACCESS_SUCCESS) { F(c, "harness:mirror-invalid", "the mirror record does not validate"); return; }
    vp::count();
    if (!M().fault_hit) { vp::stats().dontcare++; return; }
    if (rc != PERSISTENT_ACCESS_IO_ERROR) { F(c, "not-reported", vp::fmt("medium call %ld %s but the operation returned %d instead of IO_ERROR", c.point, c.fkind % 10 == 0 ? "failed" : "transferred short", (int)rc)); return; }
    // the medium works again: validation by the same instance succeeds only if the checksum on the medium matches the data on the medium
    M().clear_run();
    PersistentAccess v = persistent_validate(&in.st);
    bool consistent = medium_consistent(c.cfg);
    if (v == PERSISTENT_ACCESS_SUCCESS && !consistent) F(c, "mixed-image-validates-after-failed-operation", vp::fmt("the operation failed with an I/O error; afterwards the same instance validates although checksum %x does not match the data on the medium (%x)", medium_sum(c.cfg), ref_sum(c.cfg, M().mem + c.cfg.data_addr())));
    else if (v == PERSISTENT_ACCESS_INVALID_DATA && consistent) F(c, "consistent-image-rejected-after-failed-operation", "validate rejects a medium whose checksum matches its data");
    else vp::cls(consistent ? "failed-operation-leaves-consistent-medium" : "failed-operation-leaves-mixed-medium");
}

static void run_config(const Config &cfg, uint64_t seed, bool thorough) {
    // stores: full and a few partial ones
    std::vector<std::array<size_t, 3>> ops = {{0, 0, cfg.size}};
    if (cfg.size >= 2) { ops.push_back({1, 0, 1}); ops.push_back({1, cfg.size - 1, 1}); ops.push_back({1, 1, cfg.size - 1}); }
    if (cfg.size >= 4) ops.push_back({1, 1, cfg.size - 2});
    if ((thorough || cfg.size <= 8) && cfg.size <= 64) for (size_t off = 0; off < cfg.size; off++) for (size_t len = 1; off + len <= cfg.size; len++) if (off + len != cfg.size || off != 0) ops.push_back({1, off, len});
    for (auto &o : ops) {
        Case c{cfg, seed, 0, (int)o[0], o[1], o[2], 0, 0};
        size_t octets, calls; std::vector<size_t> bounds;
        if (!clean_run(c, octets, calls, bounds)) { F(c, "clean-run-failed", "the fault-free operation does not succeed"); continue; }
        std::set<long> points;
        if (octets <= 400) for (long k = 0; k <= (long)octets; k++) points.insert(k);
        else {   // large images: cuts at every write boundary +-1, around 2^8/2^16 multiples, and spread over the rest
            for (long k : {0L, 1L, 2L, 255L, 256L, 257L, 65535L, 65536L, 65537L, (long)octets / 2, (long)octets - 2, (long)octets - 1, (long)octets}) if (k >= 0 && k <= (long)octets) points.insert(k);
            for (size_t b : bounds) for (long d : {-1L, 0L, 1L}) if ((long)b + d >= 0 && (long)b + d <= (long)octets) points.insert((long)b + d);
            for (long k = 0; k <= (long)octets; k += (long)octets / 24 + 1) points.insert(k);
        }
        for (long k : points) {
            c.point = k; run_crash(c);
            bool interior = k > 0 && k < (long)octets;
            if (interior) vp::nontrivial(vp::fnv(serc(c)));
            if (vp::want_sample()) vp::sample(serc(c));
        }
        vp::cls("crash-points", points.size());
    }
    // a medium that silently keeps something else than it acknowledged, at every call of a full store
    {
        Case c{cfg, seed, 2, 0, 0, cfg.size, 0, 0};
        size_t octets, calls; std::vector<size_t> bounds;
        if (clean_run(c, octets, calls, bounds)) {
            for (long k = 0; k < (long)calls && k < 48; k++) for (int kind : {30, 31}) { c.point = k; c.fkind = kind; run_silent(c); vp::nontrivial(vp::fnv(serc(c))); }
            vp::cls("silent-retention-points", std::min<size_t>(calls, 48) * 2);
        }
    }
    // faults in every operation
    std::vector<std::array<size_t, 3>> fops = {{0, 0, cfg.size}, {2, 0, 0}, {3, 0, 0}, {5, 0, 0}};
    if (cfg.size >= 2) { fops.push_back({1, 1, cfg.size - 1}); fops.push_back({1, 0, 1}); fops.push_back({4, 1, cfg.size - 1}); }
    for (auto &o : fops) {
        Case c{cfg, seed, 1, (int)o[0], o[1], o[2], 0, 0};
        size_t octets, calls; std::vector<size_t> bounds;
        if (!clean_run(c, octets, calls, bounds)) { F(c, "clean-run-failed", "the fault-free operation does not succeed"); continue; }
        std::set<long> idxs;
        if (calls <= 64) for (long k = 0; k < (long)calls; k++) idxs.insert(k);
        else for (long k : {0L, 1L, 2L, (long)calls / 2, (long)calls - 2, (long)calls - 1}) idxs.insert(k);
        for (long k : idxs) for (int kind : {0, 1, 2, 3, 4, 5, 6, 7, 8, 9, 10, 11, 20, 21}) {
            if (kind >= 20 && (c.op > 1 || cfg.aux < (long)(c.op == 0 ? cfg.size : c.len))) continue;
            if (kind >= 10 && kind < 20 && (uint64_t)cfg.data_addr() + 2 * cfg.size + 64 > MSIZE) continue;
            c.point = k; c.fkind = kind; run_fault(c);
            if (k > 0) vp::nontrivial(vp::fnv(serc(c)));
            if (vp::want_sample()) vp::sample(serc(c));
        }
        vp::cls(std::string("fault-points:") + opn[c.op], idxs.size() * 14);
    }
}

static void run() {
    auto &a = vp::args();
    vp::CaseScope scope([] { return serc(g_cur); });
    size_t maxsize = a.thorough() ? 32 : 16;
    vp::stats().rule = vp::fmt("fault enumeration (images: random, zero from the first third on, or padded with 00/ff from the middle on): data size 1..%zu x placement {0,5} x 3 checksums x aux {none,0,1,2,size-1,size+1} ; per configuration every crash point (total octets the medium accepts before "
                               "the cut, i.e. every whole-write prefix and every torn position) of the full store and of partial stores, followed by validate+fetch on a fresh instance; and a single "
                               "failing / short (n-1, 1, n-2^16, n-2^8) / over-long (n+1, (size_t)-EIO/-EBUSY/-EAGAIN/-EINTR) medium call (also from a re-entrant driver that validates a mirror record through the library before it answers) at every call index (sampled for operations with more than 64 medium calls); of store, store_part, validate, fetch, fetch_part, reset, on an instance that validated the previous image before and validates again afterwards; a full store onto a medium that acknowledges every write but keeps one bit unchanged / only the first half of the block at one write call, followed by validate+fetch on a fresh instance; plus data sizes 255..257, 65535..65537, 70000 with sampled crash points", maxsize);
    vp::stats().exhaustive = true;
    uint64_t idx = 0;
    for (size_t size = 1; size <= maxsize; size++)
        for (uint32_t place : {0u, 5u})
            for (int cs = 0; cs < 3; cs++) {
                std::set<long> auxes = {-1, 0, 1, 2, (long)size - 1, (long)size + 1};
                for (long aux : auxes) {
                    if (aux < -1) continue;
                    if (idx++ % a.nshards != a.shard) continue;
                    run_config({size, place, cs, aux, (int)(idx & 1)}, a.seed * 3 + idx % 3, a.thorough());
                    if (vp::too_many_failures()) return;
                }
            }
    // data portions and single transfers at the 2^8 / 2^16 boundaries
    for (size_t size : {(size_t)255, (size_t)256, (size_t)257, (size_t)65535, (size_t)65536, (size_t)65537, (size_t)70000})
        for (int cs = 0; cs < 3; cs++)
            for (long aux : {-1L, 256L, 65536L, (long)size, (long)size + 1}) {
                if (aux > (long)size + 1) continue;
                if (idx++ % a.nshards != a.shard) continue;
                if (!a.thorough() && size > 300 && aux < 256) continue;   // octet-wise medium access on 64 KiB images: thorough tier only
                run_config({size, 0, cs, aux, 0}, a.seed * 3 + idx % 3, false);
                vp::cls("large-image-config");
                if (vp::too_many_failures()) return;
            }
}
static bool replay(const std::string &text) {
    auto w = vp::split(vp::lines(text).at(0));
    Case c;
    if (!parse_cfg(w, c.cfg) || w.size() < 18) return false;
    c.seed = strtoull(w[7].c_str(), 0, 10); c.mode = atoi(w[9].c_str()); c.op = atoi(w[11].c_str()); c.off = strtoull(w[12].c_str(), 0, 10); c.len = strtoull(w[13].c_str(), 0, 10);
    c.point = atol(w[15].c_str()); c.fkind = atoi(w[17].c_str());
    vp::CaseScope scope([] { return serc(g_cur); });
    if (c.mode == 0) run_crash(c); else if (c.mode == 2) run_silent(c); else run_fault(c);
    return vp::stats().failures.empty();
}
VP_MAIN(run, replay)
