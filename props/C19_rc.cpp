// C19 — rapidcheck: long histories at larger capacities, three element types.
#include "support/rc.hpp"
#include "props/C19.hpp"
using namespace c19;

static rc::Gen<Case> genCase() {
    return rc::gen::exec([]() {
        Case c;
        c.type = *vprc::uni<int>(0, 3);
        c.cap = *rc::gen::weightedOneOf<size_t>({{3, vprc::uni<size_t>(1, 8)}, {2, vprc::uni<size_t>(9, 64)}});
        size_t n = *rc::gen::inRange<size_t>(0, 1001);
        int type = c.type;
        c.ops = *rc::gen::container<std::vector<Op>>(n, rc::gen::exec([type]() {
            int k = *rc::gen::weightedElement<int>({{10, PUT}, {7, GET}, {1, CLEAR}, {1, OVR_ON}, {1, OVR_OFF}});
            int64_t v = 0;
            if (k == PUT) {
                if (type == 0) v = *vprc::uni<int64_t>(0, 255);
                else if (type == 1) v = *rc::gen::weightedOneOf<int64_t>({{3, vprc::uni<int64_t>(0, 300)}, {1, rc::gen::element<int64_t>(0xffffffffLL, 0x80000000LL, 0x7fffffffLL)}});
                else v = *rc::gen::weightedOneOf<int64_t>({{3, vprc::uni<int64_t>(-300, 300)}, {1, rc::gen::element<int64_t>(-32768, 32767, -1)}});
            }
            if (k == OVR_ON) v = *vprc::uni<int64_t>(0, 5);   // which non-zero integer switches the mode on (1, 2, 0x100, 0xff00, -1, INT_MIN)
            return Op{k, v};
        }));
        return c;
    });
}
static std::string oracle(const Case &c) {
    std::string r = run_case(c);
    vp::count(c.ops.size() + 1);
    size_t q = 0, puts = 0; bool ovr = false, evict = false, wrap = false, reuse = false, cleared = false;
    for (auto &op : c.ops) {
        if (op.kind == PUT) { puts++; if (q < c.cap) q++; else if (ovr) evict = true; if (puts > c.cap) wrap = true; if (cleared) reuse = true; }
        if (op.kind == GET && q) q--;
        if (op.kind == CLEAR) { q = 0; cleared = true; }
        if (op.kind == OVR_ON) ovr = true;
        if (op.kind == OVR_OFF) ovr = false;
    }
    vp::cls("histories");
    if (evict) vp::cls("history-with-eviction");
    if (wrap) vp::cls("history-with-wrap-around");
    if (reuse) vp::cls("history-with-clear-and-reuse");
    if (c.cap == 1) vp::cls("capacity-1");
    if (evict || wrap || reuse || c.cap == 1) vp::nontrivial(vp::fnv(serialise(c)));
    VP_SAMPLE(serialise(c, 10) + vp::fmt("... (%zu ops)", c.ops.size()));
    return r;
}
static void run() {
    vp::stats().rule = "rc: random histories (<=1000 ops) over put/get/clear/override for capacities 1..64 and element types uint8_t, uint32_t, int16_t, double";
    vprc::check<Case>("ring buffer follows the queue model", genCase(), oracle, [](const Case &c) { return serialise(c); });
}
static bool replay(const std::string &text) {
    Case c;
    if (!parse(text, c)) return false;
    std::string r = run_case(c);
    if (!r.empty()) printf("[replay] key=%s\n", r.c_str());
    return r.empty();
}
VP_MAIN(run, replay)
