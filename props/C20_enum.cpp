// C20 — bounded-exhaustive: all small trees in several renderings; all short strings over a 10-character alphabet.
#include "props/C20.hpp"
using namespace c20;

static std::string g_cur;
static std::string ser(const std::string &in) { return "sx " + vp::hex(in.data(), in.size()) + "\n# " + vp::json_escape(in) + "\n"; }

static void run_input(const std::string &in, bool from_tree) {
    g_cur = in;
    Outcome o = check_input(in);
    vp::count();
    if (!o.key.empty()) { vp::fail(o.key, o.msg + " input=\"" + vp::json_escape(in) + "\"", ser(in)); return; }
    if (o.ref == DONTCARE) { vp::stats().dontcare++; vp::cls("dont-care"); }
    else vp::cls(o.ref == ACCEPT ? (from_tree ? "tree-rendering-accepted" : "string-accepted") : "string-rejected");
    if (from_tree && o.ref != ACCEPT) vp::fail("harness:rendering-not-accepted-by-reference", "generator and reference reader disagree", ser(in));
    if (o.nontrivial) vp::nontrivial(vp::fnv(in));
    if (vp::want_sample()) vp::sample(vp::json_escape(in));
}

// ---- trees
static const char *SYMS[] = {"a", "foo", "x-1", "+"};
static const uint64_t INTS[] = {0, 7, 255, 65536};
static std::vector<std::vector<Tree>> g_by_nodes;   // [n] = all trees with exactly n nodes
static void build_trees(size_t maxn) {
    g_by_nodes.assign(maxn + 1, {});
    for (auto s : SYMS) g_by_nodes[1].push_back(Tree::symbol(s));
    for (auto v : INTS) g_by_nodes[1].push_back(Tree::integer(v));
    g_by_nodes[1].push_back(Tree::list());
    for (size_t n = 2; n <= maxn; n++) {
        // list whose children use n-1 nodes: compositions
        std::vector<size_t> parts;
        std::function<void(size_t, std::vector<Tree> &)> rec = [&](size_t left, std::vector<Tree> &items) {
            if (left == 0) { Tree t = Tree::list(items); if (t.depth() <= 4) g_by_nodes[n].push_back(t); return; }
            for (size_t k = 1; k <= left; k++) for (auto &child : g_by_nodes[k]) { items.push_back(child); rec(left - k, items); items.pop_back(); }
        };
        std::vector<Tree> items; rec(n - 1, items);
    }
}
static std::string render_int(uint64_t v, int style) {
    if (style == 0) return std::to_string(v);
    char buf[32]; snprintf(buf, sizeof buf, style == 1 ? "#x%llx" : "#x%llX", (unsigned long long)v);
    std::string s = buf;
    if (style == 3) for (size_t i = 2; i < s.size(); i += 2) s[i] = (char)toupper((unsigned char)s[i]);   // mixed case
    return s;
}
// ws: 0 minimal, 1 single blanks everywhere, 2 mixed blank/tab/newline incl. leading and trailing
static void render(const Tree &t, int ws, int istyle, std::string &out, unsigned &salt) {
    static const char *MIX[] = {" ", "\t", "\n", " \n ", "\t ", "  "};
    auto gap = [&](bool needed) { if (ws == 0) { if (needed) out += " "; } else if (ws == 1) out += " "; else out += MIX[salt++ % 6]; };
    if (t.kind == Tree::SYM) { out += t.sym; return; }
    if (t.kind == Tree::INT) { out += render_int(t.val, istyle == 4 ? (int)(salt++ % 4) : istyle); return; }
    out += "(";
    for (size_t i = 0; i < t.items.size(); i++) {
        bool prev_atom = i > 0 && t.items[i - 1].kind != Tree::LIST, cur_atom = t.items[i].kind != Tree::LIST;
        gap(i > 0 && prev_atom && cur_atom);
        render(t.items[i], ws, istyle, out, salt);
    }
    if (ws != 0) gap(false);
    out += ")";
}

// Long inputs. A list of a million elements and a configuration tree nested a thousand deep are ordinary data; the reader's stack use must
// not grow with the number of elements. Each input is parsed in a forked child under an 8 MiB stack limit (a crash there is a result, not the
// death of the harness) and the tree is verified without recursion. shape 0: "(a 7 #xFF foo a 7 ...)" with n elements; 1: n lists nested in
// each other "((( ... )))"; 2/3: the same without the closing parentheses (must be refused, nothing returned).
#include <sys/resource.h>
#include <sys/wait.h>
static int long_child(int shape, size_t n) {
    pid_t pid = fork();
    if (pid < 0) return 8;
    if (pid == 0) {
        struct rlimit rl; rl.rlim_cur = rl.rlim_max = 8u << 20; setrlimit(RLIMIT_STACK, &rl);
        static const char *ATOM[4] = {"a", "7", "#xFF", "foo"};
        std::string in;
        if (shape == 0 || shape == 3) { in = "("; for (size_t i = 0; i < n; i++) { if (i) in += ' '; in += ATOM[i & 3]; } if (shape == 0) in += ")"; }
        else { in.assign(n, '('); if (shape == 1) in.append(n, ')'); }
        struct sx_parse_result r = sx_parse_stringn(in.data(), in.size());
        int rc = 0;
        if (shape >= 2) { if (r.status == SXS_SUCCESS || r.node != nullptr) rc = 1; _exit(rc); }
        if (r.status != SXS_SUCCESS || r.node == nullptr || r.position != in.size()) _exit(1);
        struct sx_node *nd = r.node;
        if (shape == 0) {
            for (size_t i = 0; i < n && !rc; i++) {
                if (nd->type != SXT_PAIR) { rc = 1; break; }
                struct sx_node *car = nd->data.pair->car;
                switch (i & 3) { case 0: if (car->type != SXT_SYMBOL || strcmp(car->data.symbol, "a")) rc = 1; break; case 1: if (car->type != SXT_INTEGER || car->data.u64 != 7) rc = 1; break;
                                 case 2: if (car->type != SXT_INTEGER || car->data.u64 != 255) rc = 1; break; default: if (car->type != SXT_SYMBOL || strcmp(car->data.symbol, "foo")) rc = 1; }
                nd = nd->data.pair->cdr;
            }
            if (!rc && nd->type != SXT_EMPTY_LIST) rc = 1;
        } else {
            for (size_t lvl = 1; lvl < n && !rc; lvl++) { if (nd->type != SXT_PAIR || nd->data.pair->cdr->type != SXT_EMPTY_LIST) { rc = 1; break; } nd = nd->data.pair->car; }
            if (!rc && nd->type != SXT_EMPTY_LIST) rc = 1;
        }
        if (!rc) { sx_destroy(&r.node); if (r.node != nullptr) rc = 1; }
        _exit(rc);
    }
    int st = 0;
    if (waitpid(pid, &st, 0) != pid) return 8;
    if (WIFSIGNALED(st) || (WIFEXITED(st) && WEXITSTATUS(st) == 77)) return 2;   // 77: the sanitizer's exit code (it reports the stack overflow itself)
    return WIFEXITED(st) ? WEXITSTATUS(st) : 8;
}
static void long_inputs() {
    struct L { int shape; size_t n; };
    for (L l : {L{0, 1000}, L{0, 100000}, L{0, 1000000}, L{3, 100000}, L{3, 1000000}, L{1, 100}, L{1, 1000}, L{2, 1000}, L{1, 100000}, L{2, 100000}}) {
        std::string rep = vp::fmt("long %d %zu\n", l.shape, l.n);
        vp::CaseScope scope([rep] { return rep; });
        bool flat = l.shape == 0 || l.shape == 3, deep = !flat && l.n > 1000;
        std::string key = flat ? "long-list" : deep ? "deep-nesting" : "nesting";
        if (deep && vp::excluded("deep-nesting:stack-exhaustion")) { vp::stats().excluded++; vp::cls("nesting-beyond-1000-levels (known finding, not run)"); continue; }
        int rc = long_child(l.shape, l.n);
        vp::count(); vp::nontrivial(vp::fnv(rep)); vp::cls(flat ? "list-of-10^3..10^6-elements" : "lists-nested-100..1000-deep");
        if (rc == 8) { vp::stats().notes["long_inputs"] = "fork/wait failed: phase skipped"; return; }
        if (rc == 2) vp::fail(key + ":stack-exhaustion", vp::fmt("%s %zu %s kills the process (stack exhausted under an 8 MiB limit): the reader's stack use grows with the input", flat ? "a list of" : "lists nested", l.n, flat ? "elements" : "deep"), rep);
        else if (rc) vp::fail(key + (l.shape >= 2 ? ":unterminated-accepted" : ":wrong-tree"), vp::fmt("%s %zu: %s", flat ? "list of" : "nesting depth", l.n, l.shape >= 2 ? "input without closing parentheses was not refused cleanly" : "the tree returned is not the tree written"), rep);
    }
}

// expressions that begin 2 GiB and more into the input (address space only: the input is an untouched MAP_NORESERVE mapping of zero
// octets with the expression written near its end): positions that pass through a 32-bit or signed variable show here
#include <sys/mman.h>
static void giant_offsets() {
    const size_t SZ = ((size_t)1 << 32) + 65536;
    char *mem = (char *)mmap(nullptr, SZ, PROT_READ | PROT_WRITE, MAP_PRIVATE | MAP_ANONYMOUS | MAP_NORESERVE, -1, 0);
    if (mem == MAP_FAILED) { vp::stats().notes["giant_offsets"] = "mmap of 4 GiB + 64 KiB failed: skipped"; return; }
    struct T { const char *text; uint64_t value; bool list; };
    for (size_t off : {((size_t)1 << 31) - 3, ((size_t)1 << 31) + 5, ((size_t)1 << 32) - 2, ((size_t)1 << 32) + 9}) for (T t : {T{"42 ", 42, false}, T{"#xBeeF)", 0xbeef, false}, T{"(7 foo 65536) ", 7, true}}) {
        std::string rep = vp::fmt("giant %zu %s\n", off, t.text);
        vp::CaseScope scope([&] { return rep; });
        size_t len = strlen(t.text);
        memset(mem + off - 8, ' ', 8); memcpy(mem + off, t.text, len);
        mem[off - 1] = '9'; mem[off - 2] = '1';                 // digits directly in front of the start index: none of the reader's business
        vp::count(); vp::nontrivial(vp::mix(off, vp::fnv(std::string(t.text)))); vp::cls("expression-2GiB-and-more-into-the-input");
        long live0 = c20::ledger().live;
        struct sx_parse_result res = sx_parse(mem, off + len, off);
        bool ok = res.status == SXS_SUCCESS && res.node != nullptr;
        if (ok && !t.list) ok = res.node->type == SXT_INTEGER && res.node->data.u64 == t.value && res.position == off + (t.text[len - 1] == ')' ? len - 1 : len - 1);
        if (ok && t.list) ok = res.node->type == SXT_PAIR && res.node->data.pair->car->type == SXT_INTEGER && res.node->data.pair->car->data.u64 == 7 && res.position == off + len - 1;
        std::string got = res.node && res.node->type == SXT_INTEGER ? vp::fmt("integer %llu", (unsigned long long)res.node->data.u64) : "other";
        if (res.node) sx_destroy(&res.node);
        if (!ok) vp::fail("giant:parse-from-index", vp::fmt("sx_parse of \"%s\" from index %zu: status %d, %s, position %zu", t.text, off, (int)res.status, got.c_str(), res.position), rep);
        else if (c20::ledger().live != live0) vp::fail("giant:leak", "allocations outstanding", rep);
        memset(mem + off - 8, 0, 8 + len);
    }
    munmap(mem, SZ);
}
static void run() {
    auto &a = vp::args();
    vp::CaseScope scope([] { return ser(g_cur); });
    size_t maxnodes = a.thorough() ? 6 : 5, maxlen = a.thorough() ? 7 : 6;
    vp::stats().rule = vp::fmt("enum: (a) all trees with <= %zu nodes and depth <= 4 over symbols {a,foo,x-1,+}, integers {0,7,255,65536} and empty lists, rendered with 3 whitespace styles x "
                               "decimal / #x lower / #x upper / mixed-case digits; (a') lists of 254..4000 elements, sub-lists late in long parents, nesting depth 50..1000; (b) all strings of length <= %zu over '( ) space a 1 # x F - newline'; every input presented NUL-terminated and "
                               "length-delimited in an exact-size heap block; oracle = independent reference reader, allocation ledger, ASan; sx_parse from indices around 2^31 and 2^32 in a 4 GiB input (address space only)", maxnodes, maxlen);
    vp::stats().exhaustive = true;
    build_trees(maxnodes);
    uint64_t idx = 0;
    for (size_t n = 1; n <= maxnodes; n++)
        for (auto &t : g_by_nodes[n]) {
            if (idx++ % a.nshards != a.shard) continue;
            bool hasint = show(t).find_first_of("0123456789") != std::string::npos;
            for (int ws = 0; ws < 3; ws++) for (int is = 0; is < (hasint ? 5 : 1); is++) {
                if (n >= 5 && !((ws + is) % 2 == 0)) continue;   // larger trees: half of the rendering combinations
                std::string out; unsigned salt = (unsigned)(idx + ws);
                if (ws == 2) out += " \n";
                render(t, ws, is, out, salt);
                size_t end = out.size();
                if (ws == 2) out += "\t ";
                run_input(out, true);
                (void)end;
            }
            if (vp::too_many_failures()) return;
        }
    static const char ALPHA[10] = {'(', ')', ' ', 'a', '1', '#', 'x', 'F', '-', '\n'};
    for (size_t len = 0; len <= maxlen; len++) {
        uint64_t total = 1; for (size_t i = 0; i < len; i++) total *= 10;
        for (uint64_t code = 0; code < total; code++, idx++) {
            if (idx % a.nshards != a.shard) continue;
            std::string s(len, ' '); uint64_t x = code;
            for (size_t i = 0; i < len; i++) { s[i] = ALPHA[x % 10]; x /= 10; }
            run_input(s, false);
            if (vp::too_many_failures()) return;
        }
    }
    // long lists and deep nesting: element counts / depths at 2^8 and beyond (a guard or counter in a narrow type shows here)
    {
        unsigned k = 0;
        auto atoms = [](size_t n, size_t salt) { std::vector<Tree> v; for (size_t i = 0; i < n; i++) v.push_back((i + salt) % 3 == 0 ? Tree::symbol(SYMS[(i + salt) % 4]) : Tree::integer(i * 7 + salt)); return v; };
        std::vector<Tree> big;
        for (size_t n : {(size_t)254, (size_t)255, (size_t)256, (size_t)257, (size_t)300, (size_t)1000, (size_t)4000}) big.push_back(Tree::list(atoms(n, n)));
        { auto v = atoms(200, 1); v.push_back(Tree::list(atoms(60, 2))); v.push_back(Tree::symbol("tail")); big.push_back(Tree::list(v)); }        // a sub-list late in a long parent
        { auto v = atoms(3, 5); auto w = atoms(300, 6); w.insert(w.begin() + 150, Tree::list(atoms(300, 7))); v.push_back(Tree::list(w)); big.push_back(Tree::list(v)); }
        for (size_t depth : {(size_t)50, (size_t)255, (size_t)256, (size_t)257, (size_t)1000}) { Tree t = Tree::list({Tree::symbol("x")}); for (size_t i = 0; i < depth; i++) t = Tree::list({Tree::integer(i), t, Tree::list()}); big.push_back(t); }
        for (size_t len : {(size_t)254, (size_t)255, (size_t)256, (size_t)257, (size_t)1000, (size_t)65536}) { std::string sym(len, 'q'); sym[len / 2] = '-'; big.push_back(Tree::list({Tree::symbol(sym), Tree::integer(9999999999999999999ull), Tree::symbol(sym + "x")})); big.push_back(Tree::symbol(sym)); }
        for (auto &t : big) {
            if (k++ % a.nshards != a.shard) continue;
            for (int ws = 0; ws < 3; ws++) { std::string out; unsigned salt = k; render(t, ws, 4, out, salt); run_input(out, true); vp::cls("long-list-or-deep-nesting"); }
        }
    }
    // a few hand-picked shapes outside the small alphabet
    if (a.shard == 0)
        for (const char *s : {"foo{}bar", "1234a", "(1 (a b c) 3)", "#xdeadBEEF", "(#xFF #xff #Xff)", "((((((((a))))))))", "(a . b)", "\"str\"", "(a\x01)", "18446744073709551615", "#xffffffffffffffff", "(%|/_:;.!?$&=*<>~)"})
            run_input(s, false);
    // every octet value as the first and as a later character of a token, alone, inside a list, behind "#x" and in front of a digit:
    // the character classes of the reader are the fixed ASCII sets of the format, whatever <ctype.h> answers in the process's locale
    if (a.shard == 0)
        for (int c = 1; c < 256; c++) {
            std::string ch(1, (char)c);
            for (const std::string &in : {ch, "a" + ch, "(" + ch + " 1)", "#x" + ch, ch + "1", "#x1" + ch, "1" + ch, "(a" + ch + ")"}) run_input(in, false);
            vp::cls("every-octet-in-every-token-position");
        }
    if (a.shard == 1 % a.nshards && !vp::vg().on) giant_offsets();
    if (a.shard == 2 % a.nshards && !vp::vg().on) long_inputs();
}
static bool replay(const std::string &text) {
    auto w = vp::split(vp::lines(text).at(0));
    if (!w.empty() && w[0] == "giant") { giant_offsets(); return vp::stats().failures.empty(); }
    if (w.size() >= 3 && w[0] == "long") { long_inputs(); return vp::stats().failures.empty(); }
    if (w.empty() || w[0] != "sx") return false;
    std::string in;
    if (w.size() >= 2) { auto b = vp::unhex(w[1]); in.assign(b.begin(), b.end()); }
    vp::CaseScope scope([] { return ser(g_cur); });
    run_input(in, false);
    return vp::stats().failures.empty();
}
VP_MAIN(run, replay)
