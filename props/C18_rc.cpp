// C18 — rapidcheck engine: long random histories on larger buffers.
#include "support/rc.hpp"
#include "props/C18.hpp"
using namespace c18;

static rc::Gen<Case> genCase() {
    return rc::gen::exec([]() {
        Case c;
        c.size = *rc::gen::weightedOneOf<size_t>({{8, vprc::uni<size_t>(1, 64)}, {1, rc::gen::element<size_t>(255, 256, 257, 65535, 65536, 65537)}});
        c.used = *vprc::uni<size_t>(0, c.size);
        c.offset = *vprc::uni<size_t>(0, c.used);
        size_t n = *rc::gen::inRange<size_t>(0, 501);
        size_t size = c.size;
        c.ops = *rc::gen::container<std::vector<Op>>(n, rc::gen::exec([size]() {
            int k = *rc::gen::weightedElement<int>({{6, ADD}, {5, CONSUME}, {4, ATMOST}, {3, REWIND}, {1, RESET}, {1, CLEAR}, {1, REPEAT}, {1, QUERY}, {1, SETBAD}, {2, SELFADD}});
            // operands: mostly small, sometimes around the size
            size_t n = *rc::gen::weightedOneOf<size_t>({{6, vprc::uni<size_t>(0, 8)}, {2, vprc::uni<size_t>(0, size + 1)}, {size > 64 ? 3 : 0, rc::gen::map(vprc::uni<size_t>(0, 4), [size](size_t d) { return size / 2 + d; })}, {(k == CONSUME || k == ATMOST) ? 1 : 0, rc::gen::map(vprc::uni<size_t>(0, 70), [](size_t d) { return (size_t)SIZE_MAX - d; })}});
            return Op{k, n};
        }));
        return c;
    });
}

static std::string oracle(const Case &c) {
    size_t at = 0;
    std::string r = run_case(c, &at);
    vp::count(c.ops.size() + 1);
    // classification: does the history contain the interesting steps?  (re-derived from a model run)
    Model m; m.size = c.size; m.off = c.offset; m.content.assign(c.used, 1);
    bool nt = false; size_t rewinds = 0, refused = 0, fills = 0;
    for (auto &op : c.ops) {
        switch (op.kind) {
        case ADD: if (op.n <= m.avail()) { if (op.n && op.n == m.avail()) fills++; m.content.insert(m.content.end(), op.n, 1); } else refused++; break;
        case CONSUME: if (op.n <= m.rest()) m.off += op.n; else refused++; break;
        case ATMOST: if (m.rest()) m.off += std::min(op.n, m.rest()); else refused++; break;
        case REWIND: if (m.off > 0 && m.off < m.used()) rewinds++; m.content.erase(m.content.begin(), m.content.begin() + (long)m.off); m.off = 0; break;
        case RESET: case CLEAR: m.content.clear(); m.off = 0; break;
        case REPEAT: m.off = 0; break;
        case SELFADD: { size_t cnt = op.n / 2, from = (op.n % 2) ? 0 : m.off; if (cnt && from + cnt <= m.used() && cnt <= m.avail()) m.content.insert(m.content.end(), cnt, 1); } break;
        }
    }
    nt = rewinds > 0 || fills > 0;
    if (rewinds) vp::cls("history-with-rewind-of-unread-data");
    if (fills) vp::cls("history-with-exact-fill");
    if (refused) vp::cls("history-with-refused-op");
    vp::cls("histories");
    if (nt) vp::nontrivial(vp::fnv(serialise(c)));
    VP_SAMPLE(serialise(c, 12) + vp::fmt("... (%zu ops)", c.ops.size()));
    return r;
}

static void run() {
    vp::stats().rule = "rc: random histories (<=500 ops) on buffers of size 1..64 and 255..257 / 65535..65537, operand lengths 0..size+1, weighted to add/consume/rewind";
    vprc::check<Case>("byte buffer follows the list model", genCase(), oracle, [](const Case &c) { return serialise(c); });
}
static bool replay(const std::string &text) {
    Case c;
    if (!parse(text, c)) return false;
    std::string r = run_case(c);
    if (!r.empty()) printf("[replay] key=%s\n", r.c_str());
    return r.empty();
}
VP_MAIN(run, replay)
