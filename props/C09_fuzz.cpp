// C09 (primary) / C07 (verdict differential) — libFuzzer target: structure-aware decode of the input into
// (configuration, octet stream), the reference stream walker is the oracle inside the target.
#include <fuzzer/FuzzedDataProvider.h>
#include "support/fuzz.hpp"
#include "props/C09.hpp"
using namespace c09;

extern "C" int LLVMFuzzerInitialize(int *argc, char ***argv) { return vpfuzz::initialize(argc, argv); }

extern "C" int LLVMFuzzerTestOneInput(const uint8_t *data, size_t size) {
    if (size < 4 || size > 1500) return 0;
    FuzzedDataProvider fdp(data, size);
    Config cfg;
    uint8_t flags = fdp.ConsumeIntegral<uint8_t>();
    cfg.serial = flags & 1; cfg.mem16 = flags & 2; cfg.chunk_src = (flags & 4) ? 1 : 0;
    if (flags & 128) cfg.chunk_src = fdp.ConsumeIntegralInRange<int>(2, 40);
    cfg.block_extra = fdp.ConsumeIntegralInRange<size_t>(0, 299);
    cfg.failmask = (flags & 8) ? fdp.ConsumeIntegral<uint8_t>() : 0;
    Bytes stream;
    if (flags & 16) stream = fdp.ConsumeRemainingBytes<uint8_t>();           // raw octets
    else {
        // a list of reference-encoded frames with mutations
        while (fdp.remaining_bytes() > 2 && stream.size() < 1200) {
            uint8_t k = fdp.ConsumeIntegral<uint8_t>();
            rp::Frame f;
            bool w16 = (k & 1) ? cfg.mem16 : !cfg.mem16;
            uint32_t n = fdp.ConsumeIntegralInRange<uint32_t>(0, (k & 2) ? 150 : 6);
            switch ((k >> 2) & 7) {
            case 0: case 1: f = rp::make_request(cfg.serial, false, w16, fdp.ConsumeIntegral<uint16_t>(), fdp.ConsumeIntegral<uint32_t>(), n, {}); break;
            case 2: case 3: case 4: { Bytes pl = fdp.ConsumeBytes<uint8_t>((size_t)n * (w16 ? 2 : 1)); pl.resize((size_t)n * (w16 ? 2 : 1), 0xc0); f = rp::make_request(cfg.serial, true, w16, fdp.ConsumeIntegral<uint16_t>(), fdp.ConsumeIntegral<uint32_t>(), n, pl); break; }
            case 5: { rp::Frame rq = rp::make_request(cfg.serial, k & 64, w16, 1, 2, n, {}); f = rp::make_response(cfg.serial, rq, fdp.ConsumeIntegralInRange<int>(0, 11), w16, {}, fdp.ConsumeIntegral<uint32_t>()); break; }
            case 6: f = rp::make_meta(cfg.serial, 1 + (k >> 7)); break;
            default: f.type = fdp.ConsumeIntegralInRange<int>(0, 15); f.options = fdp.ConsumeIntegralInRange<int>(0, 15); f.meta = fdp.ConsumeIntegralInRange<int>(0, 15); f.blocksize = n; f.payload = fdp.ConsumeBytes<uint8_t>(fdp.ConsumeIntegralInRange<size_t>(0, 12)); break;
            }
            Bytes raw = rp::encode(f);
            if (k & 32) {   // mutate the de-framed octets
                uint8_t m = fdp.ConsumeIntegral<uint8_t>();
                if (!raw.empty()) { size_t p = fdp.ConsumeIntegralInRange<size_t>(0, raw.size() - 1); switch (m & 3) { case 0: raw[p] ^= (uint8_t)(1u << ((m >> 2) & 7)); break; case 1: raw.erase(raw.begin() + (long)p); break; case 2: raw.insert(raw.begin() + (long)p, (uint8_t)(m >> 2)); break; default: raw.resize(p); break; } }
            }
            Bytes w = rp::on_wire(cfg.serial, raw);
            if ((k & 96) == 96 && !w.empty()) w[fdp.ConsumeIntegralInRange<size_t>(0, w.size() - 1)] = fdp.ConsumeIntegral<uint8_t>();   // and the framed octets
            stream.insert(stream.end(), w.begin(), w.end());
        }
    }
    Outcome o = walk(cfg, stream);
    vp::count();
    if (o.reached_backend) vp::cls("reaches-backend");
    if (o.resource_replies) vp::cls("resource-reply");
    if (o.channel_errors) vp::cls("channel-error");
    if (o.bad_frames) vp::cls("invalid-frames");
    if (o.reached_backend || o.resource_replies || (o.channel_errors && o.frames)) vp::nontrivial(vp::fnv(ser(cfg, stream)));
    VP_SAMPLE(ser(cfg, stream));
    if (!o.key.empty()) vpfuzz::oracle_failure(o.key, o.msg + " case: " + ser(cfg, stream));
    return 0;
}
