// C18 — bounded-exhaustive engine: every operation sequence up to a depth from
// every valid initial state of small buffers, implementation carried along.
#include "props/C18.hpp"
using namespace c18;

static size_t g_maxdepth;
static Case g_case;

static std::vector<Op> alphabet(size_t size) {
    std::vector<Op> a;
    for (size_t n = 0; n <= size + 1; n++) { a.push_back({ADD, n}); a.push_back({CONSUME, n}); a.push_back({ATMOST, n}); }
    // lengths at the top of size_t: "offset + n" / "used + n" style arithmetic wraps there (consume and at-most only: add would need a source of that size)
    for (size_t n : {(size_t)SIZE_MAX, (size_t)SIZE_MAX - 1, (size_t)1 << 63}) { a.push_back({CONSUME, n}); a.push_back({ATMOST, n}); }
    a.push_back({REWIND, 0}); a.push_back({RESET, 0}); a.push_back({CLEAR, 0}); a.push_back({REPEAT, 0}); a.push_back({QUERY, 0});
    for (size_t v = 0; v < 5; v++) a.push_back({SETBAD, v});
    for (size_t v : {2u, 3u, 4u, 5u}) a.push_back({SELFADD, v});   // one or two octets from the unread region's start / the memory's start
    return a;
}

static void dfs(const Impl &im, const Model &m, Labels lab, size_t depth, const std::vector<Op> &alpha, uint64_t hist, unsigned ntflags) {
    for (const Op &op : alpha) {
        if (vp::too_many_failures()) return;
        Impl im2(im); Model m2 = m; Labels lab2 = lab;
        g_case.ops.resize(depth); g_case.ops.push_back(op);
        // non-trivial steps (property C18 / DESIGN 4.C18)
        unsigned nt = ntflags;
        if (op.kind == REWIND && m.off > 0 && m.off < m.used()) { nt |= 1; vp::cls("rewind-with-unread-data"); }
        if (op.kind == ADD && op.n > 0 && op.n == m.avail()) { nt |= 2; vp::cls("add-fills-exactly"); }
        if (op.kind == ADD && op.n > m.avail()) { nt |= 4; vp::cls("add-refused"); }
        if (op.kind == CONSUME && op.n > m.rest()) { nt |= 8; vp::cls("consume-refused"); }
        if (op.kind == ATMOST && op.n > m.rest() && m.rest() > 0) { nt |= 16; vp::cls("atmost-partial"); }
        std::string r = step(im2, m2, op, lab2);
        vp::count();
        uint64_t h = vp::mix(vp::mix(hist, (uint64_t)op.kind), op.n);
        if (nt != ntflags || (nt && depth + 1 == g_maxdepth)) vp::nontrivial(h);
        VP_SAMPLE(serialise(g_case));
        if (!r.empty()) { vp::fail(r, "byte buffer deviates from the list model at step " + std::to_string(depth), serialise(g_case)); continue; }
        if (depth + 1 < g_maxdepth) dfs(im2, m2, lab2, depth + 1, alpha, h, nt);
    }
    g_case.ops.resize(depth);
}

// set / use / space with every argument combination around validity
static void setup_calls() {
    for (size_t size = 0; size <= 4; size++)
        for (size_t used = 0; used <= size + 1; used++)
            for (size_t off = 0; off <= used + 1; off++)
                for (int nulldata = 0; nulldata < 2; nulldata++) {
                    vp::Block blk(size ? size : 1);
                    ByteBuffer b; memset(&b, 0x5a, sizeof b);
                    int rc = byte_buffer_set(&b, nulldata ? nullptr : blk.p, size, used, off);
                    bool valid = !nulldata && size > 0 && used <= size && off <= used;
                    vp::count(); vp::cls(valid ? "set-valid" : "set-invalid");
                    vp::nontrivial(vp::mix(vp::mix(vp::mix(vp::mix(77, size), used), off), nulldata));
                    std::string rep = vp::fmt("setcall %zu %zu %zu %d\n", size, used, off, nulldata);
                    if (valid && (rc != 0 || b.data != blk.p || b.size != size || b.used != used || b.offset != off))
                        vp::fail("set:valid-refused-or-wrong", "byte_buffer_set on valid arguments", rep);
                    if (!valid && rc >= 0) vp::fail("set:invalid-accepted", "byte_buffer_set accepted invalid arguments", rep);
                }
    for (size_t size = 0; size <= 3; size++)
        for (int nulldata = 0; nulldata < 2; nulldata++) {
            vp::Block blk(size ? size : 1);
            bool valid = !nulldata && size > 0;
            ByteBuffer b; memset(&b, 0x5a, sizeof b);
            int rc = byte_buffer_use(&b, nulldata ? nullptr : blk.p, size);
            vp::count();
            std::string rep = vp::fmt("usecall %zu %d\n", size, nulldata);
            if (valid && (rc != 0 || b.used != size || b.offset != 0 || b.size != size)) vp::fail("use:valid-wrong", "byte_buffer_use", rep);
            if (!valid && rc >= 0) vp::fail("use:invalid-accepted", "byte_buffer_use", rep);
            memset(&b, 0x5a, sizeof b);
            rc = byte_buffer_space(&b, nulldata ? nullptr : blk.p, size);
            vp::count();
            rep = vp::fmt("spacecall %zu %d\n", size, nulldata);
            if (valid && (rc != 0 || b.used != 0 || b.offset != 0 || b.size != size)) vp::fail("space:valid-wrong", "byte_buffer_space", rep);
            if (!valid && rc >= 0) vp::fail("space:invalid-accepted", "byte_buffer_space", rep);
        }
}

// buffers of 4 GiB and more (address space only: MAP_NORESERVE, a few pages touched): counts that pass through a 32-bit variable show here
#include <sys/mman.h>
static void giant_buffers() {
    const size_t SZ = ((size_t)1 << 32) + 65536;
    uint8_t *mem = (uint8_t *)mmap(nullptr, SZ, PROT_READ | PROT_WRITE, MAP_PRIVATE | MAP_ANONYMOUS | MAP_NORESERVE, -1, 0);
    if (mem == MAP_FAILED) { vp::stats().notes["giant_buffers"] = "mmap of 4 GiB + 64 KiB failed: skipped"; return; }
    for (size_t rest : {((size_t)1 << 32), ((size_t)1 << 32) + 1, ((size_t)1 << 32) + 3, ((size_t)1 << 32) - 1}) for (size_t off : {(size_t)0, (size_t)7}) {
        std::string rep = vp::fmt("giant %zu %zu\n", rest, off);
        vp::CaseScope scope([&] { return rep; });
        ByteBuffer b;
        if (byte_buffer_set(&b, mem, off + rest + 16, off + rest, off) != 0) { vp::fail("giant:set-refused", "valid set-up refused", rep); continue; }
        for (size_t i = 0; i < 32; i++) mem[off + i] = (uint8_t)(0x41 + i);
        vp::count(); vp::nontrivial(vp::mix(rest, off + 600)); vp::cls("buffer-of-4GiB-and-more");
        if (byte_buffer_rest(&b) != rest || byte_buffer_avail(&b) != 16) { vp::fail("giant:query", "rest/avail of a buffer beyond 4 GiB", rep); continue; }
        uint8_t dst[16]; memset(dst, 0xee, sizeof dst);
        ssize_t r = byte_buffer_consume_at_most(&b, dst, 10);
        if (r != 10 || memcmp(dst, mem + off, 10) != 0 || dst[10] != 0xee || b.offset != off + 10) { vp::fail("giant:atmost", vp::fmt("consume_at_most(10) with %zu unread octets returned %zd, offset %zu", rest, r, b.offset), rep); continue; }
        int rc = byte_buffer_consume(&b, dst, 5);
        if (rc != 0 || memcmp(dst, mem + off + 10, 5) != 0 || b.offset != off + 15) { vp::fail("giant:consume", vp::fmt("consume(5) returned %d, offset %zu", rc, b.offset), rep); continue; }
        uint8_t add[16]; memset(add, 0x77, sizeof add);
        if (byte_buffer_add(&b, add, 16) != 0 || b.used != off + rest + 16 || mem[off + rest] != 0x77 || mem[off + rest + 15] != 0x77) { vp::fail("giant:add", "add of 16 octets into exactly 16 free octets behind 4 GiB", rep); continue; }
        if (byte_buffer_add(&b, add, 1) >= 0) { vp::fail("giant:add-accepted-without-space", "add into a full buffer accepted", rep); continue; }
        if (byte_buffer_consume(&b, dst, b.used - b.offset + 1) >= 0) { vp::fail("giant:consume-accepted-without-data", "consume of one more than the unread octets accepted", rep); continue; }
    }
    munmap(mem, SZ);
}
// The API called the way callers write it: with argument expressions that have side effects (the next buffer of a pool, an index that
// is incremented). Each argument is evaluated exactly once and only the designated buffer changes - which is what distinguishes a function
// from a function-like macro that the header might put in front of it.
static ByteBuffer g_pool[3]; static uint8_t g_poolmem[3][8]; static unsigned g_picks;
static ByteBuffer *pick() { return &g_pool[g_picks++ % 3]; }
static void hygiene() {
    static const char *names[] = {"reset", "repeat", "clear", "rewind", "avail", "rest", "add", "consume", "consume_at_most", "use", "space", "set"};
    for (int f = 0; f < 12; f++) {
        std::string rep = vp::fmt("hygiene %d\n", f);
        vp::CaseScope scope([&] { return rep; });
        for (int i = 0; i < 3; i++) { for (int k = 0; k < 8; k++) g_poolmem[i][k] = (uint8_t)(0x10 * (i + 1) + k); byte_buffer_set(&g_pool[i], g_poolmem[i], 8, 5, 3); }
        ByteBuffer before[3]; memcpy(before, g_pool, sizeof before);
        uint8_t src[2] = {0xaa, 0xbb}, dst[4] = {0, 0, 0, 0}; uint8_t other[4];
        g_picks = 0; size_t idx = 0; uint8_t *srcs[2] = {src, src}; (void)srcs;
        switch (f) {
        case 0: byte_buffer_reset(pick()); break;
        case 1: byte_buffer_repeat(pick()); break;
        case 2: byte_buffer_clear(pick()); break;
        case 3: (void)byte_buffer_rewind(pick()); break;
        case 4: (void)byte_buffer_avail(pick()); break;
        case 5: (void)byte_buffer_rest(pick()); break;
        case 6: (void)byte_buffer_add(pick(), src + idx++, 1); break;
        case 7: (void)byte_buffer_consume(pick(), dst + idx++, 1); break;
        case 8: (void)byte_buffer_consume_at_most(pick(), dst + idx++, 1); break;
        case 9: (void)byte_buffer_use(pick(), other + idx++, 3); break;
        case 10: (void)byte_buffer_space(pick(), other + idx++, 3); break;
        default: (void)byte_buffer_set(pick(), other + idx++, 3, 2, 1); break;
        }
        vp::count(); vp::cls("call-with-side-effecting-arguments");
        bool others_same = memcmp(&g_pool[1], &before[1], sizeof(ByteBuffer)) == 0 && memcmp(&g_pool[2], &before[2], sizeof(ByteBuffer)) == 0;
        bool inv = g_pool[0].offset <= g_pool[0].used && g_pool[0].used <= g_pool[0].size;
        bool idx_ok = f < 6 ? idx == 0 : idx == 1;
        if (g_picks != 1 || !idx_ok || !others_same || !inv)
            vp::fail(std::string("hygiene:") + names[f], vp::fmt("byte_buffer_%s(next_buffer(), ...): the buffer argument was evaluated %u time(s), the index argument %zu time(s); other buffers %s; invariant of the designated buffer %s",
                                                                 names[f], g_picks, idx, others_same ? "unchanged" : "CHANGED", inv ? "holds" : "BROKEN"), rep);
        else if (f == 0 && (g_pool[0].used != 0 || g_pool[0].offset != 0)) vp::fail("hygiene:reset", "reset did not empty the designated buffer", rep);
        else if (f == 1 && (g_pool[0].used != 5 || g_pool[0].offset != 0)) vp::fail("hygiene:repeat", "repeat did not make the filled octets unread again", rep);
    }
}
// A byte buffer over storage that cannot be written (a canned script in flash, a file mapped read-only): every operation that has nothing
// to store - consume, consume_at_most, repeat, reset, the queries, and a rewind while the read mark is at zero - works there.
static void readonly_storage() {
    for (size_t size : {(size_t)1, (size_t)2, (size_t)7, (size_t)64, (size_t)512, (size_t)4096}) for (size_t k : {(size_t)0, (size_t)1, size / 2, size}) {
        std::string rep = vp::fmt("readonly-storage %zu %zu\n", size, k);
        vp::CaseScope scope([rep] { return rep; });
        std::vector<uint8_t> content(size); for (size_t i = 0; i < size; i++) content[i] = (uint8_t)(0x31 + 3 * i);
        vp::RoBlock ro(content.data(), size);
        if (!ro.p) return;
        ByteBuffer b; byte_buffer_use(&b, ro.p, size);
        std::vector<uint8_t> out(size + 1, 0);
        bool ok = true;
        byte_buffer_rewind(&b);                                          // unread buffer, read mark at zero: nothing to move
        if (b.offset != 0 || b.used != size) ok = false;
        if (k && byte_buffer_consume(&b, out.data(), k) != 0) ok = false;
        if (memcmp(out.data(), content.data(), k) != 0) ok = false;
        byte_buffer_repeat(&b);                                          // all filled octets unread again
        if (b.offset != 0 || byte_buffer_rest(&b) != size) ok = false;
        byte_buffer_rewind(&b);
        int got = byte_buffer_consume_at_most(&b, out.data(), size + 1);
        if (got != (int)size || memcmp(out.data(), content.data(), size) != 0) ok = false;
        byte_buffer_reset(&b);
        if (b.used != 0 || b.offset != 0) ok = false;
        vp::count(); vp::cls("operations-without-stores-on-read-only-storage"); vp::nontrivial(vp::fnv(rep));
        if (!ok) vp::fail("readonly-storage:wrong-result", "consume/repeat/rewind/reset on a buffer over read-only storage deviate from the list model", rep);
    }
}

// Observation sweep: the harness owns the schedule (as in C16). A forked child single-steps one byte_buffer_add / byte_buffer_consume with the
// x86 trap flag; at instruction k the SIGTRAP handler either
//   (observe) acts as the other end of the queue - it drains the same buffer with byte_buffer_consume_at_most, the usual transmit-interrupt
//             split - and returns, or
//   (abandon) leaves the call for good with siglongjmp (a watchdog that aborts a transfer).
// Whatever the buffer offers at that moment must be octets that were added, in order: the fill mark never covers memory the add has not
// written yet, a consume never gives up octets it has not delivered. After an observed call the rest arrives in order as well.
#if defined(__x86_64__)
#include <sys/wait.h>
#include <ucontext.h>
#include <setjmp.h>
namespace sweep {
static volatile long g_step, g_target; static volatile int g_fired, g_bad, g_mode;
static ByteBuffer g_b; static uint8_t g_mem[96], g_stream[80], g_drained[96]; static volatile size_t g_next;   // g_next: index in g_stream of the oldest octet still queued
static sigjmp_buf g_jb;
static void check_offered() {   // everything between the read mark and the fill mark is the stream from g_next on
    size_t n = g_b.used >= g_b.offset ? g_b.used - g_b.offset : 0;
    if (g_b.used > g_b.size || g_b.offset > g_b.used || g_next + n > sizeof g_stream) { g_bad = 1; return; }
    if (memcmp(g_b.data + g_b.offset, g_stream + g_next, n) != 0) g_bad = 1;
}
static void trap_handler(int, siginfo_t *, void *ucv) {
    if (++g_step != g_target) return;
    ucontext_t *uc = (ucontext_t *)ucv;
    uc->uc_mcontext.gregs[REG_EFL] &= ~0x100L;
    g_fired = 1;
    if (g_mode == 1) siglongjmp(g_jb, 1);
    check_offered();
    size_t before = g_b.used >= g_b.offset ? g_b.used - g_b.offset : 0;
    int rc = byte_buffer_consume_at_most(&g_b, g_drained, sizeof g_drained);
    if (rc > 0) { if ((size_t)rc != before || memcmp(g_drained, g_stream + g_next, (size_t)rc) != 0) g_bad = 1; g_next += (size_t)rc; }
}
// what: 0 byte_buffer_add of 24 octets behind 5 queued ones; 1 byte_buffer_consume of 24 of 29 queued octets (handler observes only in abandon mode or checks marks)
static int child(int what, int mode, long k) {
    pid_t pid = fork();
    if (pid < 0) return 8;
    if (pid == 0) {
        for (size_t i = 0; i < sizeof g_stream; i++) g_stream[i] = (uint8_t)(0x21 + 5 * i);
        memset(g_mem, 0xee, sizeof g_mem);
        byte_buffer_space(&g_b, g_mem, sizeof g_mem);
        size_t queued = what == 0 ? 5 : 29;
        byte_buffer_add(&g_b, g_stream, queued);
        g_next = 0; g_mode = mode; g_step = 0; g_target = k; g_fired = 0; g_bad = 0;
        static uint8_t out[32]; memset(out, 0, sizeof out);
        struct sigaction sa; memset(&sa, 0, sizeof sa); sa.sa_sigaction = trap_handler; sa.sa_flags = SA_SIGINFO | SA_NODEFER; sigemptyset(&sa.sa_mask);
        sigaction(SIGTRAP, &sa, nullptr);
        volatile int rc = -1; volatile bool finished = false;
        if (sigsetjmp(g_jb, 1) == 0) {
            __asm__ volatile("pushfq\n\torq $0x100, (%%rsp)\n\tpopfq" ::: "cc", "memory");
            rc = what == 0 ? byte_buffer_add(&g_b, g_stream + 5, 24) : byte_buffer_consume(&g_b, out, 24);
            __asm__ volatile("pushfq\n\tandq $~0x100, (%%rsp)\n\tpopfq" ::: "cc", "memory");
            finished = true;
        }
        int ex = 0;
        if (!g_fired) ex |= 4;
        if (finished) {
            if (rc != 0) ex |= 1;
            if (what == 1) { if (mode == 0 && g_fired) { /* the handler drained what the call was about to deliver or the rest: both orders are fine, the union is checked below */ } }
        }
        if (what == 0) {
            // after the add (finished or abandoned): what is offered is stream octets in order, nothing else
            check_offered();
            if (finished && mode == 0 && g_next + (g_b.used - g_b.offset) != 29) ex |= 1;
        } else {
            // consume: delivered octets (if the call finished) and what is still queued together are the stream, in order, nothing lost
            if (finished && !(mode == 0 && g_fired)) { if (memcmp(out, g_stream, 24) != 0) ex |= 1; g_next = 24; check_offered(); if (g_b.used - g_b.offset != 5) ex |= 1; }
            if (!finished) { g_next = 0; size_t n = g_b.used - g_b.offset; if (n == 29) check_offered(); else if (n == 5) { g_next = 24; check_offered(); if (memcmp(out, g_stream, 24) != 0) ex |= 1; } else ex |= 1; }
        }
        if (g_bad) ex |= 2;
        _exit(ex);
    }
    int st = 0;
    if (waitpid(pid, &st, 0) != pid || !WIFEXITED(st)) return 8;
    return WEXITSTATUS(st);
}
static void run() {
    static const char *wn[2] = {"byte_buffer_add", "byte_buffer_consume"}, *mn[2] = {"observed-by-a-draining-handler", "abandoned-by-siglongjmp"};
    for (int what = 0; what < 2; what++) for (int mode = 0; mode < 2; mode++) {
        if (what == 1 && mode == 0) continue;     // a handler that adds while the main line consumes is the same split seen from the other side; not promised
        long tried = 0, bad_at = -1;
        for (long k = 1; k < 100000; k += (k < 400 ? 1 : 5)) {
            int rc = child(what, mode, k);
            if (rc & 8) { vp::stats().notes["observation_sweep"] = "fork/wait failed: phase skipped"; return; }
            if (rc & 4) break;
            tried++; vp::alive();
            if ((rc & 3) && bad_at < 0) bad_at = k;
        }
        vp::count((uint64_t)tried); vp::cls(std::string("observation-points:") + wn[what] + ":" + mn[mode], (uint64_t)tried);
        vp::nontrivial(vp::mix((uint64_t)tried, 515100 + (uint64_t)(what * 2 + mode)));
        if (bad_at >= 0) vp::fail(std::string("in-progress:") + wn[what] + ":" + mn[mode], vp::fmt("%s %s at instruction %ld: the buffer offers octets that were never added (or has lost octets it never delivered) - its marks are ahead of its memory while the call is in progress", wn[what], mode ? "abandoned" : "observed", bad_at), "observation-sweep\n");
    }
}
}
static void observation_sweep() { sweep::run(); }
#else
static void observation_sweep() {}
#endif

static void run() {
    auto &a = vp::args();
    size_t maxsize = a.thorough() ? 5 : 4;
#ifdef VP_LIGHT
    maxsize = a.thorough() ? 4 : 3;   // additional build configurations: one size less (the main target keeps the full scope)
#endif
    g_maxdepth = a.thorough() ? 5 : 4;
    vp::stats().rule = vp::fmt("enum: every op sequence of length <= %zu over add/consume/consume_at_most (operand 0..size+1; consume/at-most also with lengths at the top of size_t), rewind, reset, clear, repeat, query, refused set-up calls on the buffer in use (5 kinds of invalid arguments), adds whose source lies in the buffer's own memory "
                               "from every valid (size<=%zu, used, offset) initial state; every set/use/space argument combination; every API function called with side-effecting argument expressions (evaluated exactly once); buffers with 2^32-1 .. 2^32+3 unread octets (address space only)",
                               g_maxdepth, maxsize);
    vp::stats().exhaustive = true;
    if (a.shard == 0) { setup_calls(); hygiene(); readonly_storage(); }
    if (a.shard == 2 % a.nshards && !vp::vg().on) observation_sweep();
    if (a.shard == 1 % a.nshards && !vp::vg().on) giant_buffers();
    // initial states are dealt round-robin to the shards
    unsigned idx = 0;
    vp::CaseScope scope([] { return serialise(g_case); });
    for (size_t size = 1; size <= maxsize; size++)
        for (size_t used = 0; used <= size; used++)
            for (size_t off = 0; off <= used; off++) {
                if (idx++ % a.nshards != a.shard) continue;
                g_case = Case{size, used, off, {}};
                Impl im; Model m; Labels lab;
                init(g_case, im, m, lab);
                if (byte_buffer_set(&im.b, im.mem, size, used, off) != 0) { vp::fail("set:refused-valid", "valid set refused", serialise(g_case)); continue; }
                uint64_t h = vp::mix(vp::mix(vp::mix(1, size), used), off);
                dfs(im, m, lab, 0, alphabet(size), h, 0);
            }
}

static bool replay(const std::string &text) {
    auto ls = vp::lines(text);
    if (!ls.empty() && (ls[0].rfind("setcall", 0) == 0 || ls[0].rfind("usecall", 0) == 0 || ls[0].rfind("spacecall", 0) == 0)) {
        setup_calls();   // tiny: just redo the whole family
        return vp::stats().failures.empty();
    }
    if (!ls.empty() && ls[0].rfind("hygiene", 0) == 0) { hygiene(); return vp::stats().failures.empty(); }
    if (!ls.empty() && ls[0].rfind("readonly-storage", 0) == 0) { readonly_storage(); return vp::stats().failures.empty(); }
    if (!ls.empty() && ls[0].rfind("observation-sweep", 0) == 0) { observation_sweep(); return vp::stats().failures.empty(); }
    if (!ls.empty() && ls[0].rfind("giant", 0) == 0) { giant_buffers(); return vp::stats().failures.empty(); }
    Case c;
    if (!parse(text, c)) { fprintf(stderr, "unparsable replay\n"); return false; }
    vp::CaseScope scope([&] { return serialise(c); });
    std::string r = run_case(c);
    if (!r.empty()) printf("[replay] key=%s\n", r.c_str());
    return r.empty();
}

VP_MAIN(run, replay)
