// C04 — table initialisation accepts exactly the well-formed tables.
#include "props/reg_glue.hpp"
using namespace rg;

struct Case { TableD t; bool reinit = false; };   // reinit: the table object carries the state a previous successful register_init() left behind
static Case g_cur;
static std::string ser_case(const Case &c) { return rm::ser(c.t) + (c.reinit ? "reinit 1\n" : ""); }

static int rule_of(RegisterInitCode c) {
    switch (c) {
    case REG_INIT_NO_AREAS: return rm::R_NO_AREAS; case REG_INIT_AREA_INVALID_ORDER: return rm::R_AREA_ORDER; case REG_INIT_AREA_ADDRESS_OVERLAP: return rm::R_AREA_OVERLAP;
    case REG_INIT_ENTRY_INVALID_ORDER: return rm::R_ENTRY_ORDER; case REG_INIT_ENTRY_ADDRESS_OVERLAP: return rm::R_ENTRY_OVERLAP; case REG_INIT_ENTRY_IN_MEMORY_HOLE: return rm::R_ENTRY_HOLE;
    case REG_INIT_ENTRY_INVALID_DEFAULT: return rm::R_ENTRY_DEFAULT; default: return -1;
    }
}
static int dummy_cb(RegisterTable *, RegisterHandle, void *) { return 0; }

static std::string run_case(const Case &c, std::string &msg, size_t *nviol = nullptr) {
    g_cur = c;
    const TableD &t = c.t;
    std::vector<rm::Violation> viol = rm::violations(t);
    if (nviol) *nviol = viol.size();
    Live lv(t, 0x4d00);
    if (c.reinit) {
        // what a successful initialisation of this object (with an earlier, well-formed description) leaves behind
        lv.t.flags |= REG_TF_INITIALISED;
        lv.t.areas = (AreaHandle)t.areas.size(); lv.t.entries = (RegisterHandle)t.regs.size();
        for (size_t i = 0; i < t.regs.size(); i++) { lv.entries[i].area = &lv.areas[0]; lv.entries[i].offset = 0; }
    }
    RegisterInit in = lv.init();
    vp::count();
    if (viol.empty()) {
        if (in.code != REG_INIT_SUCCESS) { msg = vp::fmt("well-formed table refused: code %d at %u", (int)in.code, in.pos.entry); return "wellformed-refused"; }
        rm::Space m; m.init(t);
        for (size_t i = 0; i < t.areas.size(); i++) if (!t.areas[i].membacked) for (uint32_t k = 0; k < t.areas[i].size; k++) m.mem[i][k] = (uint16_t)(0x4d00 + k);
        m.load_defaults();
        long d = lv.diff(m);
        if (d >= 0) {
            int a = m.area_of((uint32_t)d);
            bool inreg = false; for (auto &r : t.regs) if ((uint32_t)d >= r.addr && (uint32_t)d < r.end() && t.areas[(size_t)a].loads_defaults()) inreg = true;
            msg = vp::fmt("after init word %ld holds %04x, expected %04x", d, lv.storage[(size_t)a][(uint32_t)d - t.areas[(size_t)a].base], m.word((uint32_t)d));
            return inreg ? "post:default-not-loaded" : (t.areas[(size_t)a].membacked ? "post:memory-not-zero" : "post:callback-area-touched");
        }
        if (lv.t.areas != t.areas.size() || lv.t.entries != t.regs.size()) { msg = "areas/entries count"; return "post:counts"; }
        for (size_t ai = 0; ai < t.areas.size(); ai++) {
            std::vector<size_t> in_area;
            for (size_t ri = 0; ri < t.regs.size(); ri++) if (t.regs[ri].addr >= t.areas[ai].base && t.regs[ri].addr < t.areas[ai].end()) in_area.push_back(ri);
            const RegisterArea &ra = lv.areas[ai];
            if (ra.entry.count != in_area.size()) { msg = vp::fmt("area %zu records %u registers, %zu are located in it", ai, ra.entry.count, in_area.size()); return "post:area-count"; }
            if (!in_area.empty() && (ra.entry.first != in_area.front() || ra.entry.last != in_area.back())) { msg = vp::fmt("area %zu records run [%u,%u], expected [%zu,%zu]", ai, ra.entry.first, ra.entry.last, in_area.front(), in_area.back()); return "post:area-run"; }
        }
        for (size_t ri = 0; ri < t.regs.size(); ri++) {
            const RegD &r = t.regs[ri];
            RegisterValue v; RegisterAccess a = register_get(&lv.t, (RegisterHandle)ri, &v);
            uint64_t want = m.load(r);
            if (rm::float_ok(r.type, want) && (a.code != REG_ACCESS_SUCCESS || from_value(v) != want)) { msg = vp::fmt("register %zu does not read back (%s)", ri, code_name(a.code)); return "post:typed-access"; }
            if (lv.entries[ri].area != &lv.areas[(size_t)m.area_of(r.addr)] || lv.entries[ri].offset != r.addr - t.areas[(size_t)m.area_of(r.addr)].base) { msg = vp::fmt("register %zu linked to the wrong area/offset", ri); return "post:entry-link"; }
        }
        return "";
    }
    if (in.code == REG_INIT_SUCCESS) {
        msg = vp::fmt("malformed table accepted (%s at %u%s)", rm::rule_name[viol[0].rule], viol[0].index, viol.size() > 1 ? ", and more" : "");
        return std::string("malformed-accepted:") + rm::rule_name[viol[0].rule];
    }
    int rule = rule_of(in.code);
    uint32_t idx = (rule == rm::R_NO_AREAS || rule == rm::R_AREA_ORDER || rule == rm::R_AREA_OVERLAP) ? in.pos.area : in.pos.entry;
    bool rule_present = false; uint32_t first_idx = 0;
    for (auto &v : viol) if (v.rule == rule) { if (!rule_present || v.index < first_idx) first_idx = v.index; rule_present = true; }
    if (!rule_present) { msg = vp::fmt("reported code %d (index %u) but that rule is not violated; violated: %s at %u", (int)in.code, idx, rm::rule_name[viol[0].rule], viol[0].index); return "report:rule-not-violated"; }
    if (idx != first_idx) { msg = vp::fmt("reported %s at index %u, first violation of that rule is at %u", rm::rule_name[rule], idx, first_idx); return "report:wrong-index"; }
    // every operation must now report the table as uninitialised
    RegisterValue v = to_value(rm::U16, 1); RegisterAtom w[2] = {0, 0};
    if (register_get(&lv.t, 0, &v).code != REG_ACCESS_UNINITIALISED) { msg = "register_get"; return "uninitialised-not-reported"; }
    if (register_set(&lv.t, 0, v).code != REG_ACCESS_UNINITIALISED) { msg = "register_set"; return "uninitialised-not-reported"; }
    if (register_block_read(&lv.t, t.areas.empty() ? 0 : t.areas[0].base, 1, w).code != REG_ACCESS_UNINITIALISED) { msg = "register_block_read"; return "uninitialised-not-reported"; }
    if (register_block_write(&lv.t, t.areas.empty() ? 0 : t.areas[0].base, 1, w).code != REG_ACCESS_UNINITIALISED) { msg = "register_block_write"; return "uninitialised-not-reported"; }
    if (register_foreach_in(&lv.t, 0, 100, dummy_cb, nullptr).code != REG_ACCESS_UNINITIALISED) { msg = "register_foreach_in"; return "uninitialised-not-reported"; }
    if (register_sanitise(&lv.t).code != REG_ACCESS_UNINITIALISED) { msg = "register_sanitise"; return "uninitialised-not-reported"; }
    return "";
}

// one-step perturbations of a valid table; returns a label
static const char *perturb(vp::Rng &r, TableD &t) {
    for (int attempt = 0; attempt < 8; attempt++) {
        switch (r.below(14)) {
        case 0: if (!t.regs.empty()) { RegD &x = t.regs[r.below(t.regs.size())]; x.addr += r.chance(1, 2) ? 1u : (uint32_t)-1; return "register-moved-one-word"; } break;
        case 1: if (!t.regs.empty()) { RegD &x = t.regs[r.below(t.regs.size())]; int nt = (int)r.below(rm::NTYPES); if (rm::words(nt) > rm::words(x.type)) { x.type = nt; x.ckind = rm::C_NONE; x.def = gen_finite(r, nt); return "register-grown"; } } break;
        case 2: if (t.regs.size() >= 2) { size_t i = r.below(t.regs.size() - 1); std::swap(t.regs[i], t.regs[i + 1]); return "registers-swapped"; } break;
        case 3: { AreaD &a = t.areas[r.below(t.areas.size())]; a.base += r.chance(1, 2) ? 1u : (uint32_t)-1; return "area-base-moved"; }
        case 4: { AreaD &a = t.areas[r.below(t.areas.size())]; if (r.chance(1, 2)) a.size++; else if (a.size) a.size--; return "area-size-changed"; }
        case 5: if (t.areas.size() >= 2) { size_t i = r.below(t.areas.size() - 1); std::swap(t.areas[i], t.areas[i + 1]); return "areas-swapped"; } break;
        case 6: if (!t.regs.empty()) { RegD &x = t.regs[r.below(t.regs.size())]; if (x.ckind >= rm::C_MIN && x.ckind <= rm::C_RANGE) { bool up = x.ckind == rm::C_MAX || (x.ckind == rm::C_RANGE && r.chance(1, 2)); x.def = step(x.type, up ? x.hi : x.lo, up ? 1 : -1); return "default-across-bound"; } } break;
        case 7: if (!t.regs.empty()) { RegD &x = t.regs[r.below(t.regs.size())]; if (rm::is_float(x.type)) { x.def = r.pick(special_floats(x.type)); return "default-float-class"; } } break;
        case 8: if (!t.regs.empty()) { RegD &x = t.regs[r.below(t.regs.size())]; if (x.ckind == rm::C_CB) { x.def ^= (x.cb == 0 ? 1u : x.cb == 1 ? ((x.def & 0xff) ^ 0x2a) : 8u); return "default-fails-callback"; } } break;
        case 9: if (r.chance(1, 6)) { t.areas.clear(); return "no-areas"; } break;
        case 10: { AreaD &a = t.areas[r.below(t.areas.size())]; a.skip_defaults = !a.skip_defaults; return "skip-defaults-toggled"; }
        case 12: case 13: if (!t.regs.empty()) {   // a range whose limits are in descending order admits nothing: whatever the default is (at a limit, outside, between), it is unacceptable
            RegD &x = t.regs[r.below(t.regs.size())];
            if (x.ckind == rm::C_RANGE && rm::cmp(x.type, x.lo, x.hi) < 0) {
                std::swap(x.lo, x.hi);
                switch (r.below(5)) { case 0: x.def = x.lo; break; case 1: x.def = x.hi; break; case 2: x.def = step(x.type, x.lo, 1); break; case 3: x.def = step(x.type, x.hi, -1); break; default: break; }
                return "range-limits-descending";
            } } break;
        default: { AreaD &a = t.areas[r.below(t.areas.size())]; a.has_write = !a.has_write; return "write-callback-toggled"; }
        }
    }
    return "unchanged";
}

static TableD grid_table(vp::Rng &r) {
    TableD t; t.big = r.chance(1, 2);
    static const uint32_t B[] = {0x10, 0x14, 0x18, 0x20}, S[] = {1, 2, 4, 8};
    size_t na = r.below(4);
    for (size_t i = 0; i < na; i++) { AreaD a; a.base = B[r.below(4)]; a.size = S[r.below(4)]; a.membacked = r.chance(1, 2); a.skip_defaults = r.chance(1, 6); a.has_write = !r.chance(1, 6); t.areas.push_back(a); }
    if (r.chance(2, 3)) std::sort(t.areas.begin(), t.areas.end(), [](const AreaD &x, const AreaD &y) { return x.base < y.base; });
    size_t nr = r.below(4);
    for (size_t i = 0; i < nr; i++) { RegD x; x.type = (int)r.below(rm::NTYPES); x.addr = 0x0e + (uint32_t)r.below(0x1e); x.ckind = (int)r.below(3) == 0 ? rm::C_RANGE : rm::C_NONE; x.lo = gen_finite(r, x.type); x.hi = x.lo; x.def = r.chance(3, 4) ? x.lo : gen_any(r, x.type); t.regs.push_back(x); }
    if (r.chance(2, 3)) std::sort(t.regs.begin(), t.regs.end(), [](const RegD &x, const RegD &y) { return x.addr < y.addr; });
    return t;
}

// a register inside an area that ends exactly at 2^32 lies entirely inside an area: the table is well-formed
// Areas of one table that share backing storage: a read-only mirror (or a window into it) of a read/write area at another address - an
// ordinary register-map construction; `.mem` is a caller-supplied pointer and nothing asks for disjoint storage. Every default that gets
// loaded is acceptable to its register and is what the register holds once register_init has returned SUCCESS - in whichever order the
// areas come.
static void mirror_phase() {
    for (int variant = 0; variant < 8; variant++) {
        bool mirror_first = variant & 1, window = variant & 2, big = variant & 4;
        std::string rep = vp::fmt("mirror %d\n", variant);
        vp::CaseScope scope([rep] { return rep; });
        uint16_t store[8]; for (auto &w : store) w = 0xbeef;
        RegisterArea areas[3]; RegisterEntry entries[4]; RegisterTable t;
        memset(areas, 0, sizeof areas); memset(entries, 0, sizeof entries); memset(&t, 0, sizeof t);
        uint32_t rw_base = mirror_first ? 0x40 : 0x10, ro_base = mirror_first ? 0x10 : 0x40;
        RegisterArea &rw = areas[mirror_first ? 1 : 0], &ro = areas[mirror_first ? 0 : 1];
        rw.flags = REG_AF_RW; rw.base = rw_base; rw.size = 8; rw.read = reg_mem_read; rw.write = reg_mem_write; rw.mem = store;
        ro.flags = REG_AF_READABLE | REG_AF_SKIP_DEFAULTS; ro.base = ro_base; ro.size = window ? 4 : 8; ro.read = reg_mem_read; ro.write = nullptr; ro.mem = window ? store + 2 : store;
        auto reg = [&](size_t i, int type, uint32_t addr, uint64_t def) { entries[i].type = (RegisterType)type; entries[i].address = addr; entries[i].default_value = to_valueu(type, def, 0); entries[i].check.type = (RegisterValidatorType)rm::C_NONE; };
        reg(0, rm::U16, rw_base + 0, 20); reg(1, rm::U32, rw_base + 2, 0x12345678u); reg(2, rm::U16, rw_base + 7, 0xa55a);
        entries[3].type = REG_TYPE_INVALID;
        t.area = areas; t.entry = entries;
        register_make_bigendian(&t, big);
        RegisterInit in = register_init(&t);
        vp::count(); vp::cls("areas-sharing-backing-storage"); vp::nontrivial(vp::fnv(rep));
        if (in.code != REG_INIT_SUCCESS) { vp::fail("mirror:init-refused", vp::fmt("a table with a read-only %s of its read/write area is refused: code %d", window ? "window into" : "mirror", (int)in.code), rep); continue; }
        RegisterValue v; bool ok = true;
        if (register_get(&t, 0, &v).code != REG_ACCESS_SUCCESS || v.value.u16 != 20) ok = false;
        if (register_get(&t, 1, &v).code != REG_ACCESS_SUCCESS || v.value.u32 != 0x12345678u) ok = false;
        if (register_get(&t, 2, &v).code != REG_ACCESS_SUCCESS || v.value.u16 != 0xa55a) ok = false;
        uint16_t w2[2] = {0, 0};
        if (register_block_read(&t, ro_base + (window ? 0 : 2), 2, w2).code != REG_ACCESS_SUCCESS || memcmp(w2, store + 2, 4) != 0) ok = false;
        if (!ok) vp::fail("mirror:defaults-not-in-place", vp::fmt("after a successful register_init the registers of the read/write area do not hold their defaults (the table also has a read-only %s of that area %s it)", window ? "window into" : "mirror", mirror_first ? "in front of" : "behind"), rep);
    }
}
static void top_area_phase() {
    for (uint32_t topsize : {1u, 2u, 8u, 0x100u}) for (int big = 0; big < 2; big++) for (int withreg = 0; withreg < 2; withreg++) {
        std::string rep = vp::fmt("top %u %d %d\n", topsize, big, withreg);
        vp::CaseScope scope([&] { return rep; });
        TopTable T(topsize, withreg, big);
        RegisterInit in = register_init(&T.t);
        vp::count(); vp::cls(withreg ? "top-area:with-register" : "top-area:without-register"); vp::nontrivial(vp::fnv(rep));
        if (in.code == REG_INIT_SUCCESS) { if (!T.low_invariant()) vp::fail("top-area:defaults", "defaults of the low area not loaded", rep); continue; }
        if (withreg && in.code == REG_INIT_ENTRY_IN_MEMORY_HOLE && in.pos.entry == 3) {
            if (vp::excluded("top-area:register-reported-in-hole")) vp::stats().excluded++;
            else vp::fail("top-area:register-reported-in-hole", vp::fmt("register at %u inside the area [%u, 2^32) is reported as lying in a memory hole", T.areas[1].base, T.areas[1].base), rep);
        } else vp::fail("top-area:init-refused", vp::fmt("well-formed table with an area ending at 2^32 refused: code %d at %u", (int)in.code, in.pos.entry), rep);
    }
}
static void run() {
    auto &a = vp::args();
    vp::CaseScope scope([] { return ser_case(g_cur); });
    size_t n = (a.thorough() ? 12000000 : 600000) / a.nshards;
    vp::stats().rule = vp::fmt("stratified generation, %zu descriptions per shard: 1/2 valid tables perturbed by exactly one step (register moved/grown/swapped, area base/size changed or areas swapped, "
                               "default pushed across its bound / to a non-finite class / against its callback, range limits put in descending order, skip-defaults or write callback toggled, no areas), 1/4 valid tables, 1/4 from the raw grid "
                               "(0-3 areas with bases {0x10,0x14,0x18,0x20} x sizes {1,2,4,8} in any order, 0-3 registers of any type anywhere in 0x0e..0x2b); oracle = rule set of the model with indices, "
                               "post-conditions on storage, area runs and typed access, UNINITIALISED after failure; a third of the cases re-initialise a table object that carries the state of an earlier successful initialisation", n);
    if (a.shard == 0) { top_area_phase(); mirror_phase(); }
    vp::Rng rng(a.seed * 12289 + a.shard);
    for (size_t i = 0; i < n && !vp::too_many_failures(); i++) {
        Case c; const char *label = "valid";
        unsigned stratum = (unsigned)rng.below(4);
        if (stratum < 2) { c.t = gen_table(rng); label = perturb(rng, c.t); }
        else if (stratum == 2) c.t = gen_table(rng);
        else { c.t = grid_table(rng); label = "grid"; }
        c.reinit = rng.chance(1, 3);
        std::string msg; size_t nv = 0;
        std::string key = run_case(c, msg, &nv);
        if (!key.empty()) vp::fail(key, msg, ser_case(c));
        vp::cls(std::string(label) + (nv == 0 ? ":wellformed" : nv == 1 ? ":one-violation" : ":several-violations"));
        if ((stratum < 2 && nv <= 1) || (stratum == 3 && nv == 1)) vp::nontrivial(vp::fnv(ser_case(c)));
        if (vp::want_sample()) vp::sample(ser_case(c) + "# " + label + "\n");
    }
}
static bool replay(const std::string &text) {
    if (text.rfind("top ", 0) == 0) { top_area_phase(); return vp::stats().failures.empty(); }
    if (text.rfind("mirror ", 0) == 0) { mirror_phase(); return vp::stats().failures.empty(); }
    Case c; std::vector<std::string> rest;
    if (!rm::parse(text, c.t, rest)) return false;
    for (auto &l : rest) if (l.rfind("reinit 1", 0) == 0) c.reinit = true;
    vp::CaseScope scope([] { return ser_case(g_cur); });
    std::string msg, key = run_case(c, msg);
    if (!key.empty()) printf("[replay] key=%s %s\n", key.c_str(), msg.c_str());
    return key.empty();
}
VP_MAIN(run, replay)
