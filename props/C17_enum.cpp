// C17 — endpoints move exactly N octets in order whatever the driver does.
#include "support/endpoints.hpp"
#include <sys/mman.h>

typedef std::vector<uint8_t> Bytes;
static const int HARD = -EIO;

// api: 0 source_get_chunk 1 sink_put_chunk 2 source_get_chunk_atmost 3 sink_put_chunk_atmost
//      10 sts_cbc 11 sts_n_cbc 12 sts_drain_cbc 13 sts_n 14 sts_drain 15 sts_some_aux 16 sts_atmost_aux 17 sts_n_aux 18 sts_drain_aux
struct Case {
    int api; bool chunk_src, chunk_snk; size_t n; size_t len;      // len: stream length (plumbing)
    std::vector<int> sscript, kscript;                            // source / sink driver scripts
    size_t aux_size, aux_off, aux_used;
};
static const char *api_name(int a) {
    switch (a) { case 0: return "source_get_chunk"; case 1: return "sink_put_chunk"; case 2: return "source_get_chunk_atmost"; case 3: return "sink_put_chunk_atmost";
    case 10: return "sts_cbc"; case 11: return "sts_n_cbc"; case 12: return "sts_drain_cbc"; case 13: return "sts_n"; case 14: return "sts_drain";
    case 15: return "sts_some_aux"; case 16: return "sts_atmost_aux"; case 17: return "sts_n_aux"; case 18: return "sts_drain_aux"; case 19: return "sts_atmost"; case 20: return "sts_some"; }
    return "?";
}
static std::string ser_script(const std::vector<int> &s) { std::string o = "["; for (int v : s) o += (v == ep::ALL ? std::string("all") : std::to_string(v)) + ","; return o + "]"; }
static std::string ser(const Case &c) {
    std::string s = vp::fmt("ep %d %d %d %zu %zu %zu %zu %zu S", c.api, (int)c.chunk_src, (int)c.chunk_snk, c.n, c.len, c.aux_size, c.aux_off, c.aux_used);
    for (int v : c.sscript) s += vp::fmt(" %d", v);
    s += " K";
    for (int v : c.kscript) s += vp::fmt(" %d", v);
    return s + vp::fmt("\n# %s src=%s snk=%s sscript=%s kscript=%s\n", api_name(c.api), c.chunk_src ? "chunk" : "octet", c.chunk_snk ? "chunk" : "octet", ser_script(c.sscript).c_str(), ser_script(c.kscript).c_str());
}
static bool parse(const std::string &t, Case &c) {
    auto w = vp::split(vp::lines(t).at(0));
    if (w.size() < 11 || w[0] != "ep") return false;
    c.api = atoi(w[1].c_str()); c.chunk_src = atoi(w[2].c_str()); c.chunk_snk = atoi(w[3].c_str());
    c.n = strtoull(w[4].c_str(), 0, 10); c.len = strtoull(w[5].c_str(), 0, 10);
    c.aux_size = strtoull(w[6].c_str(), 0, 10); c.aux_off = strtoull(w[7].c_str(), 0, 10); c.aux_used = strtoull(w[8].c_str(), 0, 10);
    size_t i = 10; c.sscript.clear(); c.kscript.clear();
    for (; i < w.size() && w[i] != "K"; i++) c.sscript.push_back(atoi(w[i].c_str()));
    for (i++; i < w.size(); i++) c.kscript.push_back(atoi(w[i].c_str()));
    return true;
}
static Case g_cur;

static Bytes stream_of(size_t len) { Bytes b(len); for (size_t i = 0; i < len; i++) b[i] = (uint8_t)(0x11 + 7 * i); return b; }
static void F(const Case &c, const std::string &key, const std::string &msg) { vp::fail(std::string(api_name(c.api)) + ":" + key, msg, ser(c)); }

static uint64_t budget_for(const Case &c) { return 64 + 8 * (c.n < 100000 ? c.n : 100000) + 4 * c.len + 2 * (c.sscript.size() + c.kscript.size()); }

// ---- chunk API and at-most variants
static void run_chunk_api(const Case &c) {
    bool is_src = (c.api == 0 || c.api == 2), atmost = c.api >= 2;
    size_t N = c.n;
    bool invalid = (N == 0 || N > (size_t)SSIZE_MAX);
    size_t slen = invalid ? 16 : N + 8;
    Bytes st = stream_of(slen);
    if (is_src) {
        ep::ScriptSource src(c.chunk_src, st); src.script.steps = c.sscript;
        vp::Block dst(invalid ? 16 : N, 0xee);
        ssize_t r;
        if (VP_BUDGET(budget_for(c))) { r = atmost ? source_get_chunk_atmost(&src.src, dst.p, N) : source_get_chunk(&src.src, dst.p, N); vp::budget().armed = false; }
        else { F(c, "no-progress", vp::fmt("driver called %zu times without completion", src.calls)); return; }
        if (invalid) {
            if (!atmost) { if (r != -EINVAL) F(c, "invalid-n-accepted", vp::fmt("N=%zu returned %zd", N, r)); else if (src.calls) F(c, "invalid-n-driver-called", "driver called for invalid N"); }
            return;
        }
        if (src.pos > N) { F(c, "moved-more-than-asked", vp::fmt("stream advanced by %zu, asked %zu", src.pos, N)); return; }
        if (!atmost) {
            if (r == (ssize_t)N) {
                if (src.pos != N) F(c, "success-but-stream-position", vp::fmt("returned N=%zu but stream advanced by %zu", N, src.pos));
                else if (memcmp(dst.p, st.data(), N) != 0) F(c, "wrong-octets", "destination " + vp::hex(dst.p, N) + " stream " + vp::hex(st.data(), N));
            } else if (r < 0) {
                if (!(src.script.sticky && r == src.script.sticky)) F(c, "error-not-from-driver", vp::fmt("returned %zd; the driver's hard error was %d", r, src.script.sticky));
            } else F(c, "bad-return", vp::fmt("returned %zd for N=%zu", r, N));
        } else {
            if (r >= 0) {
                if ((size_t)r > N) F(c, "atmost-returns-more", vp::fmt("returned %zd > %zu", r, N));
                else if ((size_t)r != src.pos) F(c, "atmost-count-vs-moved", vp::fmt("returned %zd but %zu octets were moved", r, src.pos));
                else if (memcmp(dst.p, st.data(), (size_t)r) != 0) F(c, "wrong-octets", "destination differs from the stream");
            }
        }
    } else {
        ep::ScriptSink snk(c.chunk_snk); snk.script.steps = c.kscript;
        vp::Block srcb(invalid ? 16 : N);
        if (!invalid) memcpy(srcb.p, st.data(), N);
        ssize_t r;
        if (VP_BUDGET(budget_for(c))) { r = atmost ? sink_put_chunk_atmost(&snk.snk, srcb.p, N) : sink_put_chunk(&snk.snk, srcb.p, N); vp::budget().armed = false; }
        else { F(c, "no-progress", vp::fmt("driver called %zu times without completion", snk.calls)); return; }
        if (invalid) {
            if (!atmost) { if (r != -EINVAL) F(c, "invalid-n-accepted", vp::fmt("N=%zu returned %zd", N, r)); else if (snk.calls) F(c, "invalid-n-driver-called", "driver called for invalid N"); }
            return;
        }
        Bytes want(st.begin(), st.begin() + (long)N);
        if (snk.got.size() > N || !ep::is_prefix(snk.got, want)) { F(c, "sink-not-a-prefix", "sink received " + vp::hex(snk.got) + " of " + vp::hex(want)); return; }
        if (!atmost) {
            if (r == (ssize_t)N) { if (snk.got != want) F(c, "success-but-sink-content", "sink received " + vp::hex(snk.got) + " expected " + vp::hex(want)); }
            else if (r < 0) { if (!(snk.script.sticky && r == snk.script.sticky)) F(c, "error-not-from-driver", vp::fmt("returned %zd; the driver's hard error was %d", r, snk.script.sticky)); }
            else F(c, "bad-return", vp::fmt("returned %zd for N=%zu", r, N));
        } else if (r >= 0) {
            if ((size_t)r > N) F(c, "atmost-returns-more", vp::fmt("returned %zd > %zu", r, N));
            else if ((size_t)r != snk.got.size()) F(c, "atmost-count-vs-moved", vp::fmt("returned %zd but the sink holds %zu octets", r, snk.got.size()));
        }
    }
}

// ---- plumbing
static void run_plumbing(const Case &c) {
    Bytes st = stream_of(c.len);
    ep::ScriptSource src(c.chunk_src, st); src.script.steps = c.sscript;
    ep::ScriptSink snk(c.chunk_snk); snk.script.steps = c.kscript;
    bool aux = c.api >= 15 && c.api <= 18;
    // sts_n / sts_drain / sts_atmost / sts_some: aux_size > 0 means the (chunk) source lends a scratch region of that size through the getbuffer extension
    bool lends = (c.api == 13 || c.api == 14 || c.api == 19 || c.api == 20) && c.aux_size > 0 && c.chunk_src;
    if (lends) src.lend(c.aux_size);
    vp::Block auxmem(aux ? c.aux_size : 1, 0x77);
    ByteBuffer ab; ab.data = auxmem.p; ab.size = c.aux_size; ab.used = c.aux_used; ab.offset = c.aux_off;
    ByteBuffer before = ab;
    ssize_t r = 0;
    if (VP_BUDGET(budget_for(c) + 16 * c.len)) {
        switch (c.api) {
        case 10: r = sts_cbc(&src.src, &snk.snk); break;
        case 11: r = sts_n_cbc(&src.src, &snk.snk, c.n); break;
        case 12: r = sts_drain_cbc(&src.src, &snk.snk); break;
        case 13: r = sts_n(&src.src, &snk.snk, c.n); break;
        case 14: r = sts_drain(&src.src, &snk.snk); break;
        case 15: r = sts_some_aux(&src.src, &snk.snk, &ab); break;
        case 16: r = sts_atmost_aux(&src.src, &snk.snk, &ab, c.n); break;
        case 17: r = sts_n_aux(&src.src, &snk.snk, &ab, c.n); break;
        case 18: r = sts_drain_aux(&src.src, &snk.snk, &ab); break;
        case 19: r = sts_atmost(&src.src, &snk.snk, c.n); break;
        case 20: r = sts_some(&src.src, &snk.snk); break;
        }
        vp::budget().armed = false;
    } else { F(c, "no-progress", vp::fmt("%zu source and %zu sink driver calls without completion", src.calls, snk.calls)); return; }
    // always: the sink holds a prefix of the stream, nothing is lost between source position and sink
    if (!ep::is_prefix(snk.got, st)) { F(c, "sink-not-a-prefix", "sink received " + vp::hex(snk.got) + " stream " + vp::hex(st)); return; }
    if (!src.scratch_guard_ok()) { F(c, "lent-region-overrun", "octets outside the region the source lent were written"); return; }
    if (aux) {
        if (ab.data != before.data || ab.size != before.size) { F(c, "aux-descriptor-changed", "data/size of the auxiliary buffer changed"); return; }
        if (!(ab.offset <= ab.used && ab.used <= ab.size)) { F(c, "aux-invariant", "offset <= used <= size broken"); return; }
        if (c.api == 15 || c.api == 16)   // no rewind involved: octets outside [offset, used) must be untouched
            for (size_t i = 0; i < c.aux_size; i++) if ((i < c.aux_off || i >= c.aux_used) && auxmem.p[i] != 0x77) { F(c, "aux-outside-region-touched", vp::fmt("octet %zu outside [%zu,%zu) written", i, c.aux_off, c.aux_used)); return; }
        else   // the counted / drain calls rewind the region to the front of the memory first: nothing at or behind the old fill mark is theirs
            for (size_t i = c.aux_used; i < c.aux_size; i++) if (auxmem.p[i] != 0x77) { F(c, "aux-behind-fill-mark-touched", vp::fmt("octet %zu at or behind the fill mark %zu written", i, c.aux_used)); return; }
    }
    bool hard = src.script.sticky || snk.script.sticky;
    size_t region = aux ? c.aux_used - c.aux_off : 0;
    if ((c.api == 15 || c.api == 16 || c.api == 17) && !hard && r >= 0) {
        // the caller keeps using its auxiliary buffer: a following whole-window call through the same descriptor must stay inside the region the
        // caller designated as well (the counted call may have rewound it to the front of the memory: nothing at or behind the old fill mark then)
        size_t moved1 = snk.got.size(), pos1 = src.pos;
        ssize_t r2 = 0;
        if (VP_BUDGET(budget_for(c) + 16 * c.len)) { r2 = sts_some_aux(&src.src, &snk.snk, &ab); vp::budget().armed = false; }
        else { F(c, "no-progress", "second call does not complete"); return; }
        if (!ep::is_prefix(snk.got, st)) { F(c, "second-call:sink-not-a-prefix", "sink received " + vp::hex(snk.got) + " stream " + vp::hex(st)); return; }
        for (size_t i = 0; i < c.aux_size; i++) if (((i < c.aux_off && c.api != 17) || i >= c.aux_used) && auxmem.p[i] != 0x77) { F(c, "second-call:aux-outside-region-touched", vp::fmt("octet %zu outside [%zu,%zu) written by a following sts_some_aux call on the same auxiliary buffer", i, c.aux_off, c.aux_used)); return; }
        size_t cap2 = region;
        if (!(src.script.sticky || snk.script.sticky) && snk.got.size() - moved1 > cap2) { F(c, "second-call:atmost-moved-more", vp::fmt("second call moved %zu octets, limit %zu", snk.got.size() - moved1, cap2)); return; }
        (void)r2;
        // the first call is judged below on what it moved
        snk.got.resize(moved1); src.pos = pos1;
    }
    switch (c.api) {
    case 10: {
        size_t want = c.len ? 1 : 0;
        if (!hard && snk.got.size() != want) F(c, "moved-count", vp::fmt("moved %zu octets", snk.got.size()));
        if (!hard && c.len && r < 0) F(c, "error-without-cause", vp::fmt("returned %zd", r));
        break; }
    case 11: case 13: case 17: {
        if (hard) { if (r >= 0 && snk.got.size() != c.n) F(c, "success-despite-error", vp::fmt("returned %zd with %zu octets moved", r, snk.got.size())); break; }
        if (c.n <= c.len) {
            if (r != (ssize_t)c.n) F(c, "counted-return", vp::fmt("returned %zd for n=%zu (stream %zu)", r, c.n, c.len));
            else if (snk.got.size() != c.n) F(c, "counted-moved", vp::fmt("moved %zu octets instead of %zu", snk.got.size(), c.n));
            else if (src.pos != c.n) F(c, "counted-source-position", vp::fmt("source advanced by %zu instead of %zu (octets lost)", src.pos, c.n));
        } else {
            if (r >= 0) F(c, "short-source-success", vp::fmt("source ends after %zu octets, n=%zu, returned %zd", c.len, c.n, r));
            else if (snk.got.size() != c.len) F(c, "short-source-moved", vp::fmt("moved %zu of the %zu available octets", snk.got.size(), c.len));
        }
        break; }
    case 12: case 14: case 18:
        if (hard) break;
        if (snk.got.size() != c.len) F(c, "drain-moved", vp::fmt("moved %zu of %zu octets (returned %zd)", snk.got.size(), c.len, r));
        break;
    case 15: case 16: case 19: case 20: {
        size_t cap = c.api == 16 ? std::min(region, c.n) : region;
        if (c.api >= 19) cap = lends ? ((c.api == 19 && c.n) ? std::min(c.n, c.aux_size) : c.aux_size) : 1;   // without a lent buffer these calls move one octet
        if (snk.got.size() > cap) { F(c, "atmost-moved-more", vp::fmt("moved %zu octets, limit %zu", snk.got.size(), cap)); break; }
        if (hard) break;
        if (r >= 0) {
            if ((size_t)r != snk.got.size()) F(c, "atmost-count-vs-moved", vp::fmt("returned %zd but %zu octets reached the sink", r, snk.got.size()));
            else if (src.pos != snk.got.size()) F(c, "octets-lost", vp::fmt("source advanced by %zu, sink received %zu", src.pos, snk.got.size()));
            else if (c.len && cap && r == 0) F(c, "atmost-moved-nothing", "data and room available but nothing moved");
        } else if (c.len && cap) F(c, "error-without-cause", vp::fmt("returned %zd", r));
        break; }
    }
}

// ---- transfers of 2^31 and more octets per driver call: a virtual driver that claims the count and touches only the edges of
//      each span, on a MAP_NORESERVE destination (address space, not memory)
struct Virt { uint8_t *base; size_t total, pos = 0, calls = 0, idx = 0; std::vector<size_t> per_call; bool contiguous = true, over = false; };
static ssize_t virt_src_cb(void *d, void *out, size_t n) {
    Virt *v = (Virt *)d; vp::tick(); v->calls++;
    size_t want = v->idx < v->per_call.size() ? v->per_call[v->idx++] : (size_t)-1;
    size_t k = std::min(std::min(want, n), v->total - v->pos);
    if (n > v->total - v->pos) v->over = true;                       // asked for more than is left of the N requested
    if ((uint8_t *)out != v->base + v->pos) v->contiguous = false;   // the span must continue exactly behind the previous one
    if (k) { ((uint8_t *)out)[0] = (uint8_t)(v->pos * 7 + 1); ((uint8_t *)out)[k - 1] = (uint8_t)((v->pos + k - 1) * 7 + 1); }
    v->pos += k;
    return (ssize_t)k;
}
static ssize_t virt_snk_cb(void *d, const void *in, size_t n) {
    Virt *v = (Virt *)d; vp::tick(); v->calls++;
    size_t want = v->idx < v->per_call.size() ? v->per_call[v->idx++] : (size_t)-1;
    size_t k = std::min(std::min(want, n), v->total - v->pos);
    if (n > v->total - v->pos) v->over = true;
    if ((const uint8_t *)in != v->base + v->pos) v->contiguous = false;
    v->pos += k;
    return (ssize_t)k;
}
// drivers that re-target their own descriptor from inside the callback (a lazy-open trampoline that installs the real reader on first use;
// a header/body sink that switches to the body writer after the header): the descriptor belongs to the caller and is looked at for every driver call
struct Tramp { Source src; Sink snk; Bytes stream; size_t pos = 0; Bytes header, body; int opened = 0; };
static ssize_t tramp_read_real(void *d, void *out, size_t n) { Tramp *t = (Tramp *)d; if (t->pos >= t->stream.size()) return -ENODATA; size_t k = std::min(n, std::min<size_t>(3, t->stream.size() - t->pos)); memcpy(out, t->stream.data() + t->pos, k); t->pos += k; return (ssize_t)k; }
static ssize_t tramp_read_open(void *d, void *out, size_t n) {
    Tramp *t = (Tramp *)d;
    if (t->opened++) return -EPROTO;                              // "open" runs once
    chunk_source_init(&t->src, tramp_read_real, t);               // from now on the real reader
    return tramp_read_real(d, out, n);
}
static ssize_t tramp_write_body(void *d, const void *in, size_t n) { Tramp *t = (Tramp *)d; size_t k = std::min<size_t>(n, 3); t->body.insert(t->body.end(), (const uint8_t *)in, (const uint8_t *)in + k); return (ssize_t)k; }
static ssize_t tramp_write_header(void *d, const void *in, size_t n) {
    Tramp *t = (Tramp *)d;
    if (t->header.size() >= 2) return -EPROTO;                    // the header writer is done after two octets
    size_t k = std::min<size_t>(n, 2 - t->header.size());
    t->header.insert(t->header.end(), (const uint8_t *)in, (const uint8_t *)in + k);
    if (t->header.size() == 2) chunk_sink_init(&t->snk, tramp_write_body, t);
    return (ssize_t)k;
}
// a double-buffered receiver: the auxiliary descriptor always names the half that is filled next; the source driver flips it to the other half
// (still holding octets of two transfers ago) as soon as it has filled the current one - what a DMA completion handler does
struct PingPong { Bytes stream; size_t pos = 0; uint8_t half[2][8]; int cur = 0; ByteBuffer aux; Bytes got; size_t per = 8; };
static ssize_t pp_read(void *d, void *out, size_t n) {
    PingPong *p = (PingPong *)d;
    if (p->pos >= p->stream.size()) return -ENODATA;
    size_t k = std::min(n, std::min(p->per, p->stream.size() - p->pos));
    memcpy(out, p->stream.data() + p->pos, k); p->pos += k;
    p->cur ^= 1; p->aux.data = p->half[p->cur];
    return (ssize_t)k;
}
static ssize_t pp_write(void *d, const void *in, size_t n) { PingPong *p = (PingPong *)d; p->got.insert(p->got.end(), (const uint8_t *)in, (const uint8_t *)in + n); return (ssize_t)n; }
static void trampolines() {
    for (size_t n : {(size_t)1, (size_t)5, (size_t)8, (size_t)9, (size_t)16, (size_t)29}) for (size_t per : {(size_t)8, (size_t)3}) {
        std::string rep = vp::fmt("trampoline pingpong %zu %zu\n", n, per);
        vp::CaseScope scope([&] { return rep; });
        PingPong p; p.stream = stream_of(n); p.per = per; memset(p.half, 0x99, sizeof p.half);
        p.aux.data = p.half[0]; p.aux.size = 8; p.aux.offset = 0; p.aux.used = 8;   // the designated region is [offset, used)
        Source src; Sink snk; chunk_source_init(&src, pp_read, &p); chunk_sink_init(&snk, pp_write, &p);
        size_t moved = 0; ssize_t r = 0;
        for (int guard = 0; guard < 64; guard++) { r = sts_some_aux(&src, &snk, &p.aux); if (r <= 0) break; moved += (size_t)r; }
        vp::count(); vp::nontrivial(vp::mix(n * 16 + per, 919191)); vp::cls("source-driver-flips-the-auxiliary-descriptor");
        if (moved != n || p.got != p.stream) vp::fail("trampoline:pingpong-aux", vp::fmt("double-buffered pump with sts_some_aux: %zu of %zu octets reported, sink received %s of %s", moved, n, vp::hex(p.got).c_str(), vp::hex(p.stream).c_str()), rep);
    }
    for (size_t n : {(size_t)1, (size_t)2, (size_t)3, (size_t)4, (size_t)8, (size_t)11}) {
        std::string rep = vp::fmt("trampoline %zu\n", n);
        vp::CaseScope scope([&] { return rep; });
        Tramp t; t.stream = stream_of(n + 4);
        chunk_source_init(&t.src, tramp_read_open, &t);
        vp::Block dst(n, 0xee);
        ssize_t r = source_get_chunk(&t.src, dst.p, n);
        vp::count(); vp::nontrivial(vp::mix(n, 909090)); vp::cls("driver-re-targets-its-own-descriptor");
        if (r != (ssize_t)n || memcmp(dst.p, t.stream.data(), n) != 0 || t.pos != n) vp::fail("trampoline:source", vp::fmt("lazy-open source: returned %zd for N=%zu, delivered %s, stream %s", r, n, vp::hex(dst.p, n).c_str(), vp::hex(t.stream.data(), n).c_str()), rep);
        Tramp k; Bytes data = stream_of(n);
        chunk_sink_init(&k.snk, tramp_write_header, &k);
        vp::Block srcb(n); memcpy(srcb.p, data.data(), n);
        r = sink_put_chunk(&k.snk, srcb.p, n);
        Bytes got = k.header; got.insert(got.end(), k.body.begin(), k.body.end());
        vp::count();
        if (r != (ssize_t)n || got != data) vp::fail("trampoline:sink", vp::fmt("header/body sink: returned %zd for N=%zu, received %s of %s", r, n, vp::hex(got).c_str(), vp::hex(data).c_str()), rep);
    }
}
// An octet-style driver behind the chunk API that fails only after more than 2^31 octets of one request: the hard error is returned unchanged by
// source_get_chunk, the at-most variant returns the count actually moved. 2^31 driver calls per call: unsanitized optimised builds, thorough tier only.
// The destination is one 64 MiB memory file mapped 33 times in a row (2 GiB + 64 MiB of addresses, 64 MiB of memory).
#include <sys/syscall.h>
struct OctetFail { uint64_t pos = 0, fail_at; int code; };
static int octet_fail_cb(void *d, void *out) { OctetFail *o = (OctetFail *)d; if ((o->pos & 0xffffff) == 0) vp::alive(); if (o->pos >= o->fail_at) return o->code; *(uint8_t *)out = (uint8_t)o->pos; o->pos++; return 1; }
static void giant_octet_failure() {
    const size_t piece = (size_t)64 << 20, pieces = 33, span = piece * pieces;
    int fd = (int)syscall(SYS_memfd_create, "vp-c17", 0u);
    if (fd < 0 || ftruncate(fd, (off_t)piece) != 0) { vp::stats().notes["giant_octet_failure"] = "memfd not available: phase skipped"; if (fd >= 0) close(fd); return; }
    uint8_t *base = (uint8_t *)mmap(nullptr, span, PROT_NONE, MAP_PRIVATE | MAP_ANONYMOUS | MAP_NORESERVE, -1, 0);
    bool ok = base != MAP_FAILED;
    for (size_t i = 0; ok && i < pieces; i++) if (mmap(base + i * piece, piece, PROT_READ | PROT_WRITE, MAP_SHARED | MAP_FIXED, fd, 0) == MAP_FAILED) ok = false;
    close(fd);
    if (!ok) { vp::stats().notes["giant_octet_failure"] = "address space not available: phase skipped"; return; }
    alarm(0);   // 2^32 driver calls in this phase: bounded work, many seconds; the progress watchdog is switched off for its duration
    const uint64_t moved = ((uint64_t)1 << 31) + 1000;
    for (int variant = 0; variant < 2; variant++) {
        std::string rep = vp::fmt("giant-octet-failure %d\n", variant);
        vp::CaseScope scope([rep] { return rep; });
        OctetFail o; o.fail_at = moved; o.code = variant == 0 ? -EIO : -ENODATA;
        Source src; octet_source_init(&src, octet_fail_cb, &o);
        ssize_t r = variant == 0 ? source_get_chunk(&src, base, (size_t)moved + 1000) : source_get_chunk_atmost(&src, base, (size_t)moved + 1000);
        vp::count(); vp::nontrivial(vp::fnv(rep)); vp::cls("octet-driver-fails-after-2^31-octets-of-one-request");
        if (variant == 0 && r != -EIO) vp::fail("giant-octet:hard-error-not-returned", vp::fmt("source_get_chunk over an octet driver that fails with -EIO after %llu octets returned %zd", (unsigned long long)moved, r), rep);
        if (variant == 1 && r != (ssize_t)moved) vp::fail("giant-octet:atmost-count", vp::fmt("source_get_chunk_atmost over an octet driver that ends after %llu octets returned %zd", (unsigned long long)moved, r), rep);
    }
    munmap(base, span);
    vp::alive(); alarm(vp::args().replay.empty() ? 10 : 60);
}
static void huge_transfers() {
    struct Sc { const char *name; size_t n; std::vector<size_t> per_call; };
    std::vector<Sc> scs = {
        {"1MiB-one-call", (size_t)1 << 20, {}}, {"INT_MAX-one-call", (size_t)INT_MAX, {}}, {"2^31-one-call", (size_t)1 << 31, {}}, {"2^31+16-one-call", ((size_t)1 << 31) + 16, {}},
        {"2^32-4-then-rest", ((size_t)1 << 32) + 8, {((size_t)1 << 32) - 4}}, {"2^32-11-then-rest", ((size_t)1 << 32) + 8, {((size_t)1 << 32) - 11}}, {"2^32-then-rest", ((size_t)1 << 32) + 5, {(size_t)1 << 32}},
        {"2^31-twice", (size_t)1 << 32, {(size_t)1 << 31}}, {"2^16-steps", ((size_t)1 << 20) + 3, std::vector<size_t>(15, (size_t)1 << 16)},
    };
    for (auto &sc : scs) for (int side = 0; side < 2; side++) {
        void *mem = mmap(nullptr, sc.n + 4096, PROT_READ | PROT_WRITE, MAP_PRIVATE | MAP_ANONYMOUS | MAP_NORESERVE, -1, 0);
        if (mem == MAP_FAILED) { vp::stats().dontcare++; vp::cls("huge-transfer-skipped-no-address-space"); continue; }
        Virt v; v.base = (uint8_t *)mem; v.total = sc.n; v.per_call = sc.per_call;
        Case c{side, true, true, sc.n, 0, {}, {}, 0, 0, 0};
        std::string rep = vp::fmt("huge %d %zu", side, sc.n); for (size_t p : sc.per_call) rep += vp::fmt(" %zu", p); rep += "\n";
        ssize_t r = -1; bool done = false;
        if (VP_BUDGET(200)) {
            if (side == 0) { Source s; chunk_source_init(&s, virt_src_cb, &v); r = source_get_chunk(&s, mem, sc.n); }
            else { Sink s; chunk_sink_init(&s, virt_snk_cb, &v); r = sink_put_chunk(&s, mem, sc.n); }
            vp::budget().armed = false; done = true;
        }
        std::string key, msg;
        const char *api = side == 0 ? "source_get_chunk" : "sink_put_chunk";
        if (!done) { key = "huge:no-progress"; msg = vp::fmt("%s(%s): driver called %zu times without completion", api, sc.name, v.calls); }
        else if (r != (ssize_t)sc.n) { key = "huge:return"; msg = vp::fmt("%s(%s): returned %zd for N=%zu (stream advanced by %zu)", api, sc.name, r, sc.n, v.pos); }
        else if (v.pos != sc.n) { key = "huge:moved"; msg = vp::fmt("%s(%s): moved %zu of %zu octets", api, sc.name, v.pos, sc.n); }
        else if (!v.contiguous) { key = "huge:placement"; msg = vp::fmt("%s(%s): a span was not placed directly behind the previous one (octets overwritten / sent twice)", api, sc.name); }
        else if (v.over) { key = "huge:asked-more-than-left"; msg = vp::fmt("%s(%s): driver asked for more than the remaining count", api, sc.name); }
        munmap(mem, sc.n + 4096);
        vp::count(); vp::cls("huge-transfers"); vp::nontrivial(vp::mix(sc.n, side + 555));
        if (!key.empty()) vp::fail(std::string(api) + ":" + key, msg, rep);
    }
}
static void run_case(const Case &c) {
    g_cur = c;
    if (c.api < 10) run_chunk_api(c); else run_plumbing(c);
    vp::count();
}

static bool interesting(const std::vector<int> &s) { for (int v : s) if (v != ep::ALL) return true; return false; }

static void run() {
    auto &a = vp::args();
    vp::CaseScope scope([] { return ser(g_cur); });
    size_t maxscript = a.thorough() ? 7 : 5;
    vp::stats().rule = vp::fmt("enum: every driver script of length <= %zu over {1,2,3,all,0,EINTR,EAGAIN,hard error} x N in 1..6 x octet/chunk driver for source_get_chunk, sink_put_chunk "
                               "and the at-most variants; N in {0, SSIZE_MAX+1}; plumbing (sts_cbc/n_cbc/drain_cbc/n/drain and the four *_aux calls) over stream lengths 0..12, counts around "
                               "region multiples, partial-transfer and hard-error scripts on both sides, aux regions [offset,used) of size 1..8; random long transfers; single driver calls of 2^31..2^32 octets on a virtual driver (address space only)", maxscript);
    vp::stats().exhaustive = true;
    static const int SYM[8] = {1, 2, 3, ep::ALL, 0, -EINTR, -EAGAIN, HARD};
    uint64_t idx = 0;
    for (size_t len = 0; len <= maxscript; len++) {
        uint64_t total = 1; for (size_t i = 0; i < len; i++) total *= 8;
        for (uint64_t code = 0; code < total; code++) {
            std::vector<int> sc(len); uint64_t x = code; bool partial = false;
            for (size_t i = 0; i < len; i++) { sc[i] = SYM[x % 8]; x /= 8; if (sc[i] != ep::ALL && sc[i] != HARD) partial = true; }
            for (size_t N = 1; N <= 6; N++) for (int api = 0; api < 4; api++) for (int chunk = 0; chunk < 2; chunk++, idx++) {
                if (idx % a.nshards != a.shard) continue;
                Case c{api, (bool)chunk, (bool)chunk, N, 0, sc, sc, 0, 0, 0};
                run_case(c);
                if (partial) vp::nontrivial(vp::mix(vp::mix(vp::mix(code, len), N), api * 2 + chunk));
                if (vp::want_sample()) vp::sample(ser(c));
            }
            if (partial) vp::cls("script-with-partial-or-interruption", 48); else vp::cls("script-plain", 48);
            if (vp::too_many_failures()) return;
        }
    }
    if (a.shard == 0)
        // (the property speaks about N = 0 / N > SSIZE_MAX for the exact-N calls only; the at-most variants are not fed invalid counts)
        for (int api = 0; api < 2; api++) for (int chunk = 0; chunk < 2; chunk++) for (size_t N : {(size_t)0, (size_t)SSIZE_MAX + 1, (size_t)-1}) {
            run_case({api, (bool)chunk, (bool)chunk, N, 0, {}, {}, 0, 0, 0}); vp::cls("invalid-n");
        }
    // long runs of one transient behaviour (a retry loop that gives up, or counts, after k repetitions shows here): k zero-length returns /
    // EINTR / EAGAIN / one-octet transfers in a row (runs of 8..1000, 2^16+-1, 10^6+1, 2^20+1), at the start and behind a partial transfer, chunk-style drivers, exact-N calls and the aux plumbing
    for (int b : {0, -EINTR, -EAGAIN, 1}) for (size_t L : {8u, 15u, 16u, 17u, 31u, 32u, 33u, 63u, 64u, 65u, 100u, 127u, 128u, 129u, 255u, 256u, 257u, 1000u, 65535u, 65537u, 1000001u, 1048577u}) for (int shape = 0; shape < 3; shape++) {
        if (idx++ % a.nshards != a.shard) continue;
        if (L > 2000 && (shape != 0 || vp::vg().on)) continue;   // a million fruitless answers in a row (a driver polling an idle line): once per behaviour
        std::vector<int> sc;
        if (shape == 1) sc.push_back(1);
        sc.insert(sc.end(), L, b);
        if (shape == 2) { sc.push_back(1); sc.insert(sc.end(), L, b); }
        size_t N = b == 1 ? 2 * L + 5 : 6;
        for (int api = 0; api < 2; api++) { Case c{api, true, true, N, 0, sc, sc, 0, 0, 0}; run_case(c); vp::nontrivial(vp::fnv(ser(c))); }
        if (b == 1) { Case c{17, true, true, N, N + 3, sc, {}, 4, 0, 4}; run_case(c); }   // source side: partial transfers only (an interruption of the plumbing's single at-most read is reported as the error it is; retrying is the exact-N calls' business)
        { Case c{17, true, true, N, N + 3, {}, sc, 4, 0, 4}; run_case(c); }
        { Case c{18, true, true, 0, N, {}, sc, 3, 0, 3}; run_case(c); }
        vp::cls("long-run-of-one-transient-behaviour", 5);
    }
    // every error number a driver can report: 1..4095 except the two that mean "try again" - a hard error is returned unchanged, whatever its number
    for (int e = 1; e <= 4095; e++) {
        if (e == EINTR || e == EAGAIN) continue;
        if (idx++ % a.nshards != a.shard) continue;
        for (int api = 0; api < 2; api++) for (int chunk = 0; chunk < 2; chunk++) {
            if (e > 260 && (api + chunk + e) % 4) continue;   // beyond the defined range: one of the four combinations each
            std::vector<int> sc = {2, -e};
            Case c{api, (bool)chunk, (bool)chunk, 6, 0, sc, sc, 0, 0, 0}; run_case(c);
        }
        vp::nontrivial(vp::mix((uint64_t)e, 7171)); vp::cls("every-error-number");
    }
    // plumbing: structured grid
    static const std::vector<std::vector<int>> PS = {{}, {1}, {1, 1, 2}, {2, 1, 3}, {3, 3}, {1, ep::ALL, 1}, {HARD}, {ep::ALL, HARD}, {1, 2, HARD}, {2, 2, 2, 2, HARD}};
    for (int api = 10; api <= 20; api++)
        for (size_t len = 0; len <= 12; len++)
            for (int ks = 0; ks < 4; ks++)
                for (size_t si = 0; si < PS.size(); si++) for (size_t ki = 0; ki < PS.size(); ki++) {
                    if (idx++ % a.nshards != a.shard) continue;
                    bool csrc = ks & 1, csnk = ks & 2;
                    std::vector<size_t> ns = {0};
                    if (api == 11 || api == 13 || api == 16 || api == 17 || api == 19) ns = {0, 1, 2, 3, 4, 5, 7, 8, 9, 12, 13};
                    std::vector<std::array<size_t, 3>> auxes = {{0, 0, 0}};
                    if (api >= 15 && api <= 18) auxes = {{1, 0, 1}, {2, 0, 2}, {3, 0, 3}, {4, 0, 4}, {8, 0, 8}, {4, 1, 4}, {5, 2, 4}, {8, 3, 7}};
                    if ((api == 13 || api == 14 || api >= 19) && csrc) auxes = {{0, 0, 0}, {1, 0, 0}, {2, 0, 0}, {3, 0, 0}, {5, 0, 0}, {16, 0, 0}};   // size of the region the source lends (0: no extension)
                    for (size_t n : ns) for (auto &ax : auxes) {
                        Case c{api, csrc, csnk, n, len, PS[si], PS[ki], ax[0], ax[1], ax[2]};
                        // octet-style drivers move one octet per call whatever the script says; hard errors still apply
                        run_case(c);
                        bool nt = interesting(PS[si]) || interesting(PS[ki]) || (csrc != csnk);
                        if (nt) vp::nontrivial(vp::fnv(ser(c)));
                        vp::cls(std::string("plumbing:") + api_name(api));
                        if (vp::want_sample()) vp::sample(ser(c));
                    }
                    if (vp::too_many_failures()) return;
                }
    if (a.shard == a.nshards - 1 && !vp::vg().on) huge_transfers();
#if !defined(__SANITIZE_ADDRESS__) && !(defined(__has_feature) && __has_feature(address_sanitizer))
    if (a.thorough() && a.shard == 0 && !vp::vg().on && !getenv("VP_PREMAIN")) giant_octet_failure();
#endif
    if (a.shard == 0) trampolines();
    // random long transfers
    vp::Rng rng(a.seed * 2749 + a.shard);
    size_t nrand = (a.thorough() ? 20000 : 1500) / a.nshards;
    for (size_t i = 0; i < nrand; i++) {
        size_t N = (size_t)rng.range(1, 65536);
        std::vector<int> sc((size_t)rng.range(0, 60));
        for (auto &v : sc) { unsigned k = (unsigned)rng.below(10); v = k < 4 ? (int)rng.range(1, 4000) : k < 5 ? ep::ALL : k < 6 ? 0 : k < 7 ? -EINTR : k < 8 ? -EAGAIN : k < 9 ? 1 : (rng.chance(1, 6) ? HARD : 2); }
        int api = (int)rng.below(4); bool chunk = rng.chance(3, 4);
        if (!chunk) N = (size_t)rng.range(1, 600);
        Case c{api, chunk, chunk, N, 0, sc, sc, 0, 0, 0};
        run_case(c);
        vp::nontrivial(vp::fnv(ser(c))); vp::cls("random-long-transfers");
        // and through the counted plumbing with an auxiliary buffer
        size_t len = (size_t)rng.range(0, 3000), n = rng.chance(1, 4) ? len + (size_t)rng.range(1, 5) : (size_t)rng.range(0, (int64_t)len);
        std::vector<int> s2((size_t)rng.range(0, 20)), k2((size_t)rng.range(0, 20));
        for (auto &v : s2) v = rng.chance(1, 30) ? HARD : (int)rng.range(1, 300);
        for (auto &v : k2) v = rng.chance(1, 30) ? HARD : (int)rng.range(1, 300);
        size_t asz = (size_t)rng.range(1, 64), aoff = rng.chance(1, 3) ? (size_t)rng.range(0, (int64_t)asz - 1) : 0;
        Case p{rng.chance(1, 2) ? 17 : 18, rng.chance(1, 2), rng.chance(1, 2), n, len, s2, k2, asz, aoff, asz};
        run_case(p);
        vp::nontrivial(vp::fnv(ser(p))); vp::cls("random-aux-plumbing");
    }
}
static bool replay(const std::string &text) {
    Case c;
    if (text.rfind("huge", 0) == 0) { huge_transfers(); return vp::stats().failures.empty(); }
    if (text.rfind("giant-octet-failure", 0) == 0) { giant_octet_failure(); return vp::stats().failures.empty(); }
    if (text.rfind("trampoline", 0) == 0) { trampolines(); return vp::stats().failures.empty(); }
    if (!parse(text, c)) return false;
    vp::CaseScope scope([] { return ser(g_cur); });
    run_case(c);
    return vp::stats().failures.empty();
}
VP_MAIN(run, replay)
