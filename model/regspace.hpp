// Flat reference model of a ufw register table (no ufw code in here).
//
// Values travel as "raw" 64-bit images: unsigned types zero-extended, signed
// types sign-extended, f32 = IEEE bits in the low 32 bits, f64 = IEEE bits.
#pragma once
#include <cstdint>
#include <cstring>
#include <map>
#include <string>
#include <vector>
#include "support/vp.hpp"

namespace rm {

enum Type { U16, U32, U64, S16, S32, S64, F32, F64, NTYPES };   // same order as ufw's RegisterType
static const char *type_name[] = {"u16", "u32", "u64", "s16", "s32", "s64", "f32", "f64"};
inline unsigned words(int t) { static const unsigned w[] = {1, 2, 4, 1, 2, 4, 2, 4}; return w[t]; }
inline unsigned bits(int t) { return 16 * words(t); }
inline bool is_float(int t) { return t == F32 || t == F64; }
inline bool is_signed(int t) { return t >= S16 && t <= S64; }
inline bool is_unsigned(int t) { return t <= U64; }

inline uint64_t mask(unsigned b) { return b == 64 ? ~0ull : ((1ull << b) - 1); }
// canonical raw image of a value of type t from arbitrary 64 bits
inline uint64_t canon(int t, uint64_t raw) {
    unsigned b = bits(t);
    raw &= mask(b);
    if (is_signed(t) && b < 64 && (raw >> (b - 1)) & 1) raw |= ~mask(b);
    return raw;
}
// IEEE-754 classification by bit pattern: acceptable = +-0 or normal
inline bool float_ok(int t, uint64_t raw) {
    if (t == F32) { uint32_t e = (raw >> 23) & 0xff, m = raw & 0x7fffff; return (e == 0 && m == 0) || (e != 0 && e != 0xff); }
    if (t == F64) { uint64_t e = (raw >> 52) & 0x7ff, m = raw & 0xfffffffffffffull; return (e == 0 && m == 0) || (e != 0 && e != 0x7ff); }
    return true;
}
inline double as_double(int t, uint64_t raw) {
    if (t == F32) { uint32_t u = (uint32_t)raw; float f; memcpy(&f, &u, 4); return f; }
    double d; memcpy(&d, &raw, 8); return d;
}
// typed ordering: -1 / 0 / +1 (floats: finite values only)
inline int cmp(int t, uint64_t a, uint64_t b) {
    if (is_float(t)) { double x = as_double(t, a), y = as_double(t, b); return x < y ? -1 : x > y ? 1 : 0; }
    if (is_signed(t)) { int64_t x = (int64_t)a, y = (int64_t)b; return x < y ? -1 : x > y ? 1 : 0; }
    return a < b ? -1 : a > b ? 1 : 0;
}

// octet image of a value, most significant octet first (big) or least first (little)
inline void serialise(int t, uint64_t raw, bool big, uint16_t *out) {
    unsigned nb = 2 * words(t);
    uint8_t oct[8];
    for (unsigned i = 0; i < nb; i++) { uint8_t o = (uint8_t)(raw >> (8 * i)); if (big) oct[nb - 1 - i] = o; else oct[i] = o; }
    memcpy(out, oct, nb);   // a word in memory holds two consecutive octets of the image
}
inline uint64_t deserialise(int t, const uint16_t *in, bool big) {
    unsigned nb = 2 * words(t);
    uint8_t oct[8]; memcpy(oct, in, nb);
    uint64_t raw = 0;
    for (unsigned i = 0; i < nb; i++) raw |= (uint64_t)(big ? oct[nb - 1 - i] : oct[i]) << (8 * i);
    return canon(t, raw);
}

enum CKind { C_NONE, C_FAIL, C_MIN, C_MAX, C_RANGE, C_CB };
static const char *ckind_name[] = {"none", "fail", "min", "max", "range", "cb"};

// validator callbacks: a small family of predicates on the raw image, shared by model and harness
// The predicates may consult application state that changes while the table is live (an operating mode that moves a limit): with mode 1 every
// callback register is governed by the next predicate of the list. Validator callbacks and model read the same switch.
inline int &cb_mode() { static int m = 0; return m; }
inline bool cb_pred(int id, int t, uint64_t raw) {
    (void)t;
    switch ((id + cb_mode()) % 3) {
    case 0: return (raw & 1) == 0;            // "even" (lowest bit of the image clear)
    case 1: return (raw & 0xff) != 0x2a;      // "low octet is not 42"
    default: return ((raw >> 3) & 1) == 0;    // "bit 3 clear"
    }
}

struct AreaD {
    uint32_t base = 0, size = 0;
    bool readable = true, writeable = true;   // flag bits
    bool has_write = true;                    // write callback present
    bool has_read = true;                     // read callback present (areas without one hold no registers: typed access needs the callback)
    bool skip_defaults = false;
    bool membacked = true;                    // reg_mem_read/write on ->mem, otherwise harness callbacks on a harness array
    uint32_t end() const { return base + size; }
    bool loads_defaults() const { return has_write && !skip_defaults; }
    bool can_block_write() const { return has_write && writeable; }
};
struct RegD {
    int type = U16; uint32_t addr = 0;
    int ckind = C_NONE; uint64_t lo = 0, hi = 0; int cb = 0;
    uint64_t def = 0;
    uint32_t end() const { return addr + words(type); }
    // does a decoded, well-typed value satisfy the constraint (outside initialisation)?
    bool satisfied(uint64_t raw, bool during_init = false) const {
        switch (ckind) {
        case C_NONE: return true;
        case C_FAIL: return during_init;
        case C_MIN: return cmp(type, raw, lo) >= 0;
        case C_MAX: return cmp(type, raw, hi) <= 0;
        case C_RANGE: return cmp(type, raw, lo) >= 0 && cmp(type, raw, hi) <= 0;
        default: return cb_pred(cb, type, raw);
        }
    }
};
struct TableD {
    bool big = false;
    std::vector<AreaD> areas;
    std::vector<RegD> regs;
};

inline std::string ser(const TableD &t) {
    std::string s = vp::fmt("table %d\n", (int)t.big);
    for (auto &a : t.areas) s += vp::fmt("area %u %u %d %d %d %d %d %d\n", a.base, a.size, (int)a.readable, (int)a.writeable, (int)a.has_write, (int)a.skip_defaults, (int)a.membacked, (int)a.has_read);
    for (auto &r : t.regs) s += vp::fmt("reg %s %u %s %llu %llu %d %llu\n", type_name[r.type], r.addr, ckind_name[r.ckind], (unsigned long long)r.lo, (unsigned long long)r.hi, r.cb, (unsigned long long)r.def);
    return s;
}
// consumes the table lines; leaves other lines in `rest`
inline bool parse(const std::string &text, TableD &t, std::vector<std::string> &rest) {
    t = TableD(); bool have = false;
    for (auto &l : vp::lines(text)) {
        auto w = vp::split(l);
        if (w.empty()) continue;
        if (w[0] == "table" && w.size() >= 2) { t.big = atoi(w[1].c_str()); have = true; }
        else if (w[0] == "area" && w.size() >= 8) {
            AreaD a; a.base = (uint32_t)strtoul(w[1].c_str(), 0, 10); a.size = (uint32_t)strtoul(w[2].c_str(), 0, 10);
            a.readable = atoi(w[3].c_str()); a.writeable = atoi(w[4].c_str()); a.has_write = atoi(w[5].c_str()); a.skip_defaults = atoi(w[6].c_str()); a.membacked = atoi(w[7].c_str()); a.has_read = w.size() >= 9 ? atoi(w[8].c_str()) : 1;
            t.areas.push_back(a);
        } else if (w[0] == "reg" && w.size() >= 8) {
            RegD r; r.type = -1;
            for (int i = 0; i < NTYPES; i++) if (w[1] == type_name[i]) r.type = i;
            for (int i = 0; i < 6; i++) if (w[3] == ckind_name[i]) r.ckind = i;
            if (r.type < 0) return false;
            r.addr = (uint32_t)strtoul(w[2].c_str(), 0, 10); r.lo = strtoull(w[4].c_str(), 0, 10); r.hi = strtoull(w[5].c_str(), 0, 10); r.cb = atoi(w[6].c_str()); r.def = strtoull(w[7].c_str(), 0, 10);
            t.regs.push_back(r);
        } else rest.push_back(l);
    }
    return have;
}

// ---- the flat address space
struct Space {
    const TableD *t = nullptr;
    std::vector<std::vector<uint16_t>> mem;   // per area
    std::vector<bool> touched;                // per register
    void init(const TableD &td) { t = &td; mem.clear(); for (auto &a : td.areas) mem.emplace_back(a.size, 0); touched.assign(td.regs.size(), false); }
    int area_of(uint32_t addr) const { for (size_t i = 0; i < t->areas.size(); i++) if (addr >= t->areas[i].base && addr < t->areas[i].end()) return (int)i; return -1; }
    bool mapped(uint32_t addr) const { return area_of(addr) >= 0; }
    uint16_t &word(uint32_t addr) { int a = area_of(addr); return mem[(size_t)a][addr - t->areas[(size_t)a].base]; }
    uint16_t word(uint32_t addr) const { int a = area_of(addr); return mem[(size_t)a][addr - t->areas[(size_t)a].base]; }
    void store(const RegD &r, uint64_t raw) { uint16_t w[4]; serialise(r.type, raw, t->big, w); for (unsigned i = 0; i < words(r.type); i++) word(r.addr + i) = w[i]; }
    uint64_t load(const RegD &r) const { uint16_t w[4]; for (unsigned i = 0; i < words(r.type); i++) w[i] = word(r.addr + i); return deserialise(r.type, w, t->big); }
    // state after a successful initialisation
    void load_defaults() { for (auto &r : t->regs) { int a = area_of(r.addr); if (a >= 0 && t->areas[(size_t)a].loads_defaults()) store(r, canon(r.type, r.def)); } }
    // does the register currently decode and satisfy its constraint?
    bool sane(const RegD &r) const { uint64_t v = load(r); return float_ok(r.type, v) && r.satisfied(v); }
};

// ---- well-formedness rules of a description (C04); each violation: (rule, index)
enum Rule { R_NO_AREAS, R_AREA_ORDER, R_AREA_OVERLAP, R_ENTRY_ORDER, R_ENTRY_OVERLAP, R_ENTRY_HOLE, R_ENTRY_DEFAULT, NRULES };
static const char *rule_name[] = {"no-areas", "area-order", "area-overlap", "entry-order", "entry-overlap", "entry-in-hole", "entry-invalid-default"};
struct Violation { int rule; uint32_t index; };
inline std::vector<Violation> violations(const TableD &t) {
    std::vector<Violation> v;
    if (t.areas.empty()) { v.push_back({R_NO_AREAS, 0}); return v; }
    for (size_t i = 1; i < t.areas.size(); i++) {
        if (t.areas[i].base < t.areas[i - 1].base) v.push_back({R_AREA_ORDER, (uint32_t)i});
        else if (t.areas[i].base < t.areas[i - 1].end()) v.push_back({R_AREA_OVERLAP, (uint32_t)i});
    }
    for (size_t i = 1; i < t.regs.size(); i++) {
        if (t.regs[i].addr < t.regs[i - 1].addr) v.push_back({R_ENTRY_ORDER, (uint32_t)i});
        else if (t.regs[i].addr < t.regs[i - 1].end()) v.push_back({R_ENTRY_OVERLAP, (uint32_t)i});
    }
    for (size_t i = 0; i < t.regs.size(); i++) {
        const RegD &r = t.regs[i];
        int a = -1;
        for (size_t k = 0; k < t.areas.size(); k++) if (r.addr >= t.areas[k].base && r.addr < t.areas[k].end()) { a = (int)k; break; }
        if (a < 0 || r.end() > t.areas[(size_t)a].end()) { v.push_back({R_ENTRY_HOLE, (uint32_t)i}); continue; }
        if (t.areas[(size_t)a].loads_defaults()) {
            uint64_t d = canon(r.type, r.def);
            if (!float_ok(r.type, d) || !r.satisfied(d, true)) v.push_back({R_ENTRY_DEFAULT, (uint32_t)i});
        }
    }
    return v;
}

} // namespace rm
