// CRC-16/ARC bit-serial reference: polynomial 0x8005 reflected (0xA001), no final xor.
#pragma once
#include <cstddef>
#include <cstdint>
namespace ref {
inline uint16_t crc16_arc_octet(uint16_t crc, uint8_t o) {
    crc ^= o;
    for (int i = 0; i < 8; i++) crc = (crc & 1) ? (uint16_t)((crc >> 1) ^ 0xA001) : (uint16_t)(crc >> 1);
    return crc;
}
inline uint16_t crc16_arc(uint16_t crc, const uint8_t *p, size_t n) {
    for (size_t i = 0; i < n; i++) crc = crc16_arc_octet(crc, p[i]);
    return crc;
}
}
