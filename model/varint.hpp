// LEB128 (protobuf varint) reference.
#pragma once
#include <cstdint>
#include <vector>
namespace ref {
inline std::vector<uint8_t> varint_encode(uint64_t v) {
    std::vector<uint8_t> o;
    do { uint8_t b = v & 0x7f; v >>= 7; if (v) b |= 0x80; o.push_back(b); } while (v);
    return o;
}
enum VarintVerdict { VI_OK, VI_ILSEQ, VI_TRUNCATED };
struct VarintResult { VarintVerdict verdict; uint64_t value; size_t count; bool fits; };
// maxoctets: 5 (32 bit) or 10 (64 bit); bits: 32/64
inline VarintResult varint_decode(const uint8_t *p, size_t n, size_t maxoctets, unsigned bits) {
    VarintResult r{VI_TRUNCATED, 0, 0, true};
    for (size_t i = 0; i < maxoctets; i++) {
        if (i >= n) { r.verdict = VI_TRUNCATED; return r; }
        uint64_t grp = p[i] & 0x7f;
        unsigned sh = (unsigned)(7 * i);
        // contribution beyond the value's width means the string does not denote a value of that width
        if (sh >= bits ? grp != 0 : (sh + 7 > bits && (grp >> (bits - sh)) != 0)) r.fits = false;
        if (sh < 64) r.value |= grp << sh;
        if (!(p[i] & 0x80)) { r.verdict = VI_OK; r.count = i + 1; if (bits == 32) r.value &= 0xffffffffull; return r; }
    }
    r.verdict = VI_ILSEQ;
    return r;
}
}
