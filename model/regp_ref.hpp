// Reference reading of doc/regp.txt: frame encoder / decoder / receiver verdict,
// SLIP (RFC 1055, classic) and varint length-prefix framing.  No ufw code.
#pragma once
#include <cstdint>
#include <string>
#include <vector>
#include "model/crc16.hpp"
#include "model/varint.hpp"

namespace rp {

typedef std::vector<uint8_t> Bytes;

enum Type { READ_REQ = 0, READ_RESP = 1, WRITE_REQ = 2, WRITE_RESP = 3, META = 15 };
enum Opt { WORD16 = 1, HDCRC = 2, PLCRC = 4, RESERVED = 8 };
enum Code { C_ACK = 0, C_EWORDSIZE, C_EPAYLOADCRC, C_EPAYLOADSIZE, C_ERXOVERFLOW, C_ETXOVERFLOW, C_EBUSY, C_EUNMAPPED, C_EACCESS, C_ERANGE, C_EINVALID, C_EIO };   // (prefixed: errno.h owns EBUSY, EIO, ...)
static const char *code_name[] = {"ACK", "EWORDSIZE", "EPAYLOADCRC", "EPAYLOADSIZE", "ERXOVERFLOW", "ETXOVERFLOW", "EBUSY", "EUNMAPPED", "EACCESS", "ERANGE", "EINVALID", "EIO"};
inline bool code_has_payload(int c) { return c == C_ERXOVERFLOW || c == C_ETXOVERFLOW || c == C_EUNMAPPED || c == C_EACCESS || c == C_ERANGE || c == C_EINVALID; }

struct Frame {
    int version = 0, type = READ_REQ, options = 0, meta = 0;
    uint16_t seq = 0; uint32_t addr = 0, blocksize = 0;
    Bytes payload;                 // octets as on the wire
    // checksum fields as found / to be sent (encode() computes them unless told otherwise)
    uint16_t hdcrc = 0, plcrc = 0;
    bool is_request() const { return type == READ_REQ || type == WRITE_REQ; }
    bool is_response() const { return type == READ_RESP || type == WRITE_RESP; }
};
inline std::string show(const Frame &f) {
    char b[160];
    snprintf(b, sizeof b, "type=%d opt=%x meta=%d seq=%u addr=%u bs=%u pl=%zu", f.type, f.options, f.meta, f.seq, f.addr, f.blocksize, f.payload.size());
    return b;
}

inline void put16(Bytes &o, uint16_t v) { o.push_back((uint8_t)(v >> 8)); o.push_back((uint8_t)v); }
inline void put32(Bytes &o, uint32_t v) { put16(o, (uint16_t)(v >> 16)); put16(o, (uint16_t)v); }
inline uint16_t get16(const uint8_t *p) { return (uint16_t)((p[0] << 8) | p[1]); }
inline uint32_t get32(const uint8_t *p) { return ((uint32_t)get16(p) << 16) | get16(p + 2); }

// tweaks for deliberately damaged frames
struct Damage { bool bad_hdcrc = false, bad_plcrc = false; int force_hdcrc = -1, force_plcrc = -1; };   // force_*: put this value into the checksum field (0x0000 and 0xffff are the values a shortcut might treat as "absent")

// de-framed octets of a frame
inline Bytes encode(const Frame &f, const Damage &dmg = Damage()) {
    Bytes o;
    put16(o, (uint16_t)(((f.meta & 15) << 12) | ((f.options & 15) << 8) | ((f.type & 15) << 4) | (f.version & 15)));
    put16(o, f.seq); put32(o, f.addr); put32(o, f.blocksize);
    uint16_t plcrc = ref::crc16_arc(0, f.payload.data(), f.payload.size());
    if (dmg.bad_plcrc) plcrc ^= 0x0101;
    if (dmg.force_plcrc >= 0) plcrc = (uint16_t)dmg.force_plcrc;
    if (f.options & HDCRC) {
        uint16_t c = ref::crc16_arc(0, o.data(), 12);
        if (f.options & PLCRC) { uint8_t w[2] = {(uint8_t)(plcrc >> 8), (uint8_t)plcrc}; c = ref::crc16_arc(c, w, 2); }
        if (dmg.bad_hdcrc) c ^= 0x8001;
        if (dmg.force_hdcrc >= 0) c = (uint16_t)dmg.force_hdcrc;
        put16(o, c);
    }
    if (f.options & PLCRC) put16(o, plcrc);
    o.insert(o.end(), f.payload.begin(), f.payload.end());
    return o;
}

// SLIP, classic
inline Bytes slip(const Bytes &p) {
    Bytes o;
    for (uint8_t b : p) { if (b == 0xc0) { o.push_back(0xdb); o.push_back(0xdc); } else if (b == 0xdb) { o.push_back(0xdb); o.push_back(0xdd); } else o.push_back(b); }
    o.push_back(0xc0);
    return o;
}
// returns false on an invalid escape; `rest` = octets after the frame delimiter
inline bool unslip(const Bytes &s, size_t &pos, Bytes &out, bool &complete) {
    out.clear(); complete = false;
    while (pos < s.size()) {
        uint8_t b = s[pos++];
        if (b == 0xc0) { complete = true; return true; }
        if (b == 0xdb) {
            if (pos >= s.size()) return true;     // stream ends inside the escape
            uint8_t x = s[pos++];
            if (x == 0xdc) out.push_back(0xc0); else if (x == 0xdd) out.push_back(0xdb); else return false;
        } else out.push_back(b);
    }
    return true;
}
inline Bytes lenp(const Bytes &p) { Bytes o = ref::varint_encode(p.size()); o.insert(o.end(), p.begin(), p.end()); return o; }

enum Verdict { V_OK, V_BAD_HEADER, V_BAD_HDCRC, V_BAD_SIZE, V_BAD_PLCRC, V_DONTCARE };
static const char *verdict_name[] = {"valid", "bad-header-encoding", "bad-header-checksum", "implausible-payload-size", "bad-payload-checksum", "dont-care"};

// the receiver's reading of a de-framed octet string
inline Verdict decode(const Bytes &raw, Frame &f) {
    f = Frame();
    if (raw.size() < 12) return V_BAD_HEADER;
    uint16_t w0 = get16(raw.data());
    f.version = w0 & 15; f.type = (w0 >> 4) & 15; f.options = (w0 >> 8) & 15; f.meta = (w0 >> 12) & 15;
    f.seq = get16(raw.data() + 2); f.addr = get32(raw.data() + 4); f.blocksize = get32(raw.data() + 8);
    if (f.version != 0) return V_BAD_HEADER;
    if (f.options & RESERVED) return V_BAD_HEADER;
    switch (f.type) {
    case READ_REQ: case WRITE_REQ: if (f.meta != 0) return V_BAD_HEADER; break;
    case READ_RESP: case WRITE_RESP: if (f.meta > C_EIO) return V_BAD_HEADER; break;
    case META: if (f.meta < 1 || f.meta > 2) return V_BAD_HEADER; break;
    default: return V_BAD_HEADER;
    }
    size_t hs = 12 + ((f.options & HDCRC) ? 2 : 0) + ((f.options & PLCRC) ? 2 : 0);
    if (raw.size() < hs) return V_BAD_HEADER;
    size_t off = 12;
    if (f.options & HDCRC) { f.hdcrc = get16(raw.data() + off); off += 2; }
    if (f.options & PLCRC) { f.plcrc = get16(raw.data() + off); off += 2; }
    if (f.options & HDCRC) {
        uint16_t c = ref::crc16_arc(0, raw.data(), 12);
        if (f.options & PLCRC) c = ref::crc16_arc(c, raw.data() + hs - 2, 2);
        if (c != f.hdcrc) return V_BAD_HDCRC;
    }
    f.payload.assign(raw.begin() + (long)hs, raw.end());
    size_t P = f.payload.size(), u = (f.options & WORD16) ? 2 : 1;
    uint64_t want = (uint64_t)u * f.blocksize;
    switch (f.type) {
    case READ_REQ: case META: if (P != 0) return V_BAD_SIZE; break;
    case WRITE_REQ: case READ_RESP: if (P != want) return V_BAD_SIZE; break;
    case WRITE_RESP:
        // an acknowledgement carries nothing; an error response may carry its 32-bit payload.  A payload-less write
        // response with a non-zero block-size field is not decided by the document (mirror rule vs. payload-size rule).
        if (P == 0) { if (f.blocksize != 0) return V_DONTCARE; }
        else if (P != want) return V_BAD_SIZE;
        break;
    }
    if (f.options & PLCRC) {
        if (P == 0) return V_DONTCARE;      // declares a payload checksum without payload
        if (ref::crc16_arc(0, f.payload.data(), P) != f.plcrc) return V_BAD_PLCRC;
    }
    return V_OK;
}

// ---- frames as the document prescribes them for a given transport
inline int transport_options(bool serial, bool has_payload) { return serial ? (HDCRC | (has_payload ? PLCRC : 0)) : 0; }
inline Frame make_request(bool serial, bool write, bool w16, uint16_t seq, uint32_t addr, uint32_t n, const Bytes &payload) {
    Frame f; f.type = write ? WRITE_REQ : READ_REQ; f.seq = seq; f.addr = addr; f.blocksize = n;
    if (write) f.payload = payload;
    f.options = (w16 ? WORD16 : 0) | transport_options(serial, write && !payload.empty());
    return f;
}
// the response to `req` with response code `code`; for ACK of a read `payload` are the words delivered, w16 = memory width;
// for codes with a 32-bit payload `value` is sent big-endian in octet semantics
inline Frame make_response(bool serial, const Frame &req, int code, bool mem16, const Bytes &payload, uint32_t value) {
    Frame f; f.type = req.type == READ_REQ ? READ_RESP : WRITE_RESP; f.meta = code; f.seq = req.seq; f.addr = req.addr;
    if (code == C_ACK) {
        f.payload = payload;
        f.blocksize = (uint32_t)(mem16 ? payload.size() / 2 : payload.size());
        f.options = (mem16 ? WORD16 : 0) | transport_options(serial, !payload.empty());
    } else if (code_has_payload(code)) {
        put32(f.payload, value); f.blocksize = 4;
        f.options = transport_options(serial, true);
    } else { f.blocksize = 0; f.options = transport_options(serial, false); }
    return f;
}
inline Frame make_meta(bool serial, int meta) { Frame f; f.type = META; f.meta = meta; f.options = transport_options(serial, false); return f; }
inline Bytes on_wire(bool serial, const Bytes &raw) { return serial ? slip(raw) : lenp(raw); }

// split a sink's octets back into de-framed frames (the reference side of the transport)
inline bool split_wire(bool serial, const Bytes &wire, std::vector<Bytes> &frames) {
    frames.clear();
    size_t pos = 0;
    if (serial) {
        while (pos < wire.size()) { Bytes f; bool complete; if (!unslip(wire, pos, f, complete) || !complete) return false; frames.push_back(f); }
        return true;
    }
    while (pos < wire.size()) {
        ref::VarintResult r = ref::varint_decode(wire.data() + pos, wire.size() - pos, 10, 64);
        if (r.verdict != ref::VI_OK) return false;
        pos += r.count;
        if (r.value > wire.size() - pos) return false;
        frames.emplace_back(wire.begin() + (long)pos, wire.begin() + (long)(pos + r.value));
        pos += r.value;
    }
    return true;
}

} // namespace rp
