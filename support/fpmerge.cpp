// union size of sorted uint64 fingerprint files (one per shard)
#include <algorithm>
#include <cstdint>
#include <cstdio>
#include <vector>
int main(int argc, char **argv) {
    std::vector<uint64_t> all;
    for (int i = 1; i < argc; i++) {
        FILE *f = fopen(argv[i], "rb");
        if (!f) continue;
        uint64_t buf[8192]; size_t n;
        while ((n = fread(buf, 8, 8192, f)) > 0) all.insert(all.end(), buf, buf + n);
        fclose(f);
    }
    std::sort(all.begin(), all.end());
    all.erase(std::unique(all.begin(), all.end()), all.end());
    printf("%zu\n", all.size());
    return 0;
}
