// libFuzzer glue: --replay interception, statistics at exit, oracle failures as traps.
#pragma once
#include "support/vp.hpp"

extern "C" int LLVMFuzzerTestOneInput(const uint8_t *data, size_t size);

namespace vpfuzz {

inline bool &replaying() { static bool r = false; return r; }
inline void write_stats() {
    const char *path = getenv("VP_FUZZ_STATS");
    if (!path) return;
    vp::Stats &s = vp::stats();
    FILE *f = fopen(path, "w");
    if (!f) return;
    fprintf(f, "{\"distinct_nontrivial\": %zu, \"evaluations\": %llu, \"classes\": {", s.nontrivial.size(), (unsigned long long)s.evaluations);
    bool first = true;
    for (auto &kv : s.classes) { fprintf(f, "%s\"%s\": %llu", first ? "" : ", ", vp::json_escape(kv.first).c_str(), (unsigned long long)kv.second); first = false; }
    fprintf(f, "}, \"samples\": [");
    first = true;
    for (auto &t : s.samples) { fprintf(f, "%s\"%s\"", first ? "" : ", ", vp::json_escape(t).c_str()); first = false; }
    fprintf(f, "]}\n");
    fclose(f);
}
// called by the target when its oracle fails
inline void oracle_failure(const std::string &key, const std::string &msg) {
    if (vp::excluded(key)) { vp::stats().excluded++; return; }
    fprintf(stderr, "[oracle] key=%s %s\n", key.c_str(), msg.c_str());
    if (replaying()) { fflush(stderr); _exit(3); }
    write_stats();
    fflush(stderr);
    __builtin_trap();
}
inline int initialize(int *argc, char ***argv) {
    if (const char *ex = getenv("VP_EXCLUDE")) for (auto &e : vp::split(ex, ',')) vp::args().exclude.insert(e);
    for (int i = 1; i + 1 < *argc; i++)
        if (std::string((*argv)[i]) == "--replay") {
            replaying() = true;
            std::string text = vp::strip_comments(vp::read_file((*argv)[i + 1]));
            auto w = vp::split(vp::lines(text).at(0));
            std::vector<uint8_t> in;
            if (w.size() >= 2 && w[0] == "hexinput") in = vp::unhex(w[1]);
            // exact-size copy, like libFuzzer does
            uint8_t *copy = (uint8_t *)malloc(in.size() ? in.size() : 1);
            if (!in.empty()) memcpy(copy, in.data(), in.size());
            LLVMFuzzerTestOneInput(copy, in.size());
            free(copy);
            printf("[replay] %s: pass\n", (*argv)[i + 1]);
            fflush(stdout);
            _exit(0);
        }
    (void)vp::stats(); (void)vp::args();   // construct before registering, so they outlive the handler
    atexit(write_stats);
    return 0;
}

} // namespace vpfuzz
