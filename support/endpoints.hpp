// Scripted sources and sinks (octet- and chunk-style drivers) sitting on a model
// stream.  They never transfer more than asked, record the stream position
// ("moved" is observable independently of return values) and count calls.
#pragma once
#include "support/vp.hpp"
#include "support/ufw.hpp"
#include <climits>
#include <functional>
#include <ufw/compat/errno.h>
#include <ufw/endpoints.h>

namespace ep {

enum { ALL = INT_MAX };

// script entry: k > 0: transfer at most k octets in this call; ALL: everything asked;
//               0: return 0 without transferring; < 0: return that (negative errno) value.
// A negative entry other than -EINTR/-EAGAIN is a hard error and sticky.
// After the script: transfer everything asked.  End of stream: -ENODATA (sources).
struct Script {
    std::vector<int> steps;
    size_t at = 0;
    int sticky = 0;
    int next() {
        if (sticky) return sticky;
        if (at >= steps.size()) return ALL;
        int s = steps[at++];
        if (s < 0 && s != -EINTR && s != -EAGAIN) sticky = s;
        return s;
    }
};

struct ScriptSource {
    std::vector<uint8_t> data;
    size_t pos = 0;
    size_t calls = 0;
    size_t maxask = 0;        // largest request seen
    long err_at = -1;         // stream position at which a (sticky) error is raised
    int err = -EIO;
    int end_code = -ENODATA;
    Script script;
    bool scribble = false;    // a driver may leave anything in the caller's location when it reports an error or transfers nothing: fill it with SLIP END octets
    std::vector<std::pair<size_t, int>> transient;   // (stream position, negative code): reported once when a call finds the stream at that position, nothing is transferred by that call
    std::function<void()> pos_hook; size_t pos_hook_at = 0;   // runs once, at the beginning of the first driver call that finds the stream at or behind that position (a driver that services another port - through the library - while it waits)
    Source src;
    bool chunk;

    explicit ScriptSource(bool chunk_style, std::vector<uint8_t> d = {}) : data(std::move(d)), chunk(chunk_style) {
        if (chunk) chunk_source_init(&src, &ScriptSource::chunk_cb, this);
        else octet_source_init(&src, &ScriptSource::octet_cb, this);
    }
    ScriptSource(const ScriptSource &) = delete;
    // the getbuffer extension as sts_atmost_via_source() uses it: the source lends a scratch region ([offset, used) of the returned
    // descriptor) into which its own chunk callback reads before the octets are handed to the sink
    std::vector<uint8_t> scratch;
    void lend(size_t g) { scratch.assign(g + 2, 0xee); src.ext.getbuffer = &ScriptSource::getbuffer_cb; }
    bool scratch_guard_ok() const { return scratch.empty() || (scratch.front() == 0xee && scratch.back() == 0xee); }
    static ByteBuffer getbuffer_cb(Source *s) {
        ScriptSource *me = (ScriptSource *)s->driver;
        ByteBuffer b; b.data = me->scratch.data(); b.size = me->scratch.size(); b.offset = 1; b.used = me->scratch.size() - 1;   // one guard octet on either side
        return b;
    }
    ssize_t scrib(void *out, size_t n, ssize_t rc) { if (scribble && n) memset(out, 0xc0, n > 4 ? 4 : n); return rc; }
    ssize_t transfer(void *out, size_t n) {
        vp::tick();
        calls++;
        if (n > maxask) maxask = n;
        if (pos_hook && pos >= pos_hook_at) { auto h = std::move(pos_hook); pos_hook = nullptr; h(); }
        if (err_at >= 0 && pos >= (size_t)err_at) return scrib(out, n, err);
        for (size_t i = 0; i < transient.size(); i++) if (transient[i].first == pos) { int code = transient[i].second; transient.erase(transient.begin() + (long)i); return scrib(out, n, code); }
        int s = script.next();
        if (s <= 0) return scrib(out, n, s);
        if (pos >= data.size()) return scrib(out, n, end_code);
        size_t k = std::min<size_t>({(size_t)s, n, data.size() - pos});
        if (err_at >= 0 && pos + k > (size_t)err_at) k = (size_t)err_at - pos;   // deliver up to the faulty position first
        memcpy(out, data.data() + pos, k);
        pos += k;
        return (ssize_t)k;
    }
    static int octet_cb(void *d, void *out) { return (int)((ScriptSource *)d)->transfer(out, 1); }
    static ssize_t chunk_cb(void *d, void *out, size_t n) { return ((ScriptSource *)d)->transfer(out, n); }
};

struct ScriptSink {
    std::vector<uint8_t> got;
    size_t calls = 0;
    long err_at = -1;         // number of octets accepted before a (sticky) error is raised
    int err = -EIO;
    size_t capacity = (size_t)-1;   // after this many octets: -ENOMEM
    Script script;
    std::function<void()> hook;     // runs once, at the beginning of the next driver call (a driver that does other work - through the library - before it takes the octets)
    Sink snk;
    bool chunk;

    explicit ScriptSink(bool chunk_style) : chunk(chunk_style) {
        if (chunk) chunk_sink_init(&snk, &ScriptSink::chunk_cb, this);
        else octet_sink_init(&snk, &ScriptSink::octet_cb, this);
    }
    ScriptSink(const ScriptSink &) = delete;
    ssize_t transfer(const void *in, size_t n) {
        vp::tick();
        calls++;
        if (hook) { auto h = std::move(hook); hook = nullptr; h(); }
        if (err_at >= 0 && got.size() >= (size_t)err_at) return err;
        int s = script.next();
        if (s <= 0) return s;
        if (got.size() >= capacity) return -ENOMEM;
        size_t k = std::min<size_t>({(size_t)s, n, capacity - got.size()});
        if (err_at >= 0 && got.size() + k > (size_t)err_at) k = (size_t)err_at - got.size();
        got.insert(got.end(), (const uint8_t *)in, (const uint8_t *)in + k);
        return (ssize_t)k;
    }
    static int octet_cb(void *d, unsigned char c) { return (int)((ScriptSink *)d)->transfer(&c, 1); }
    static ssize_t chunk_cb(void *d, const void *in, size_t n) { return ((ScriptSink *)d)->transfer(in, n); }
};

inline bool is_prefix(const std::vector<uint8_t> &a, const std::vector<uint8_t> &b) {
    return a.size() <= b.size() && std::equal(a.begin(), a.end(), b.begin());
}

} // namespace ep
