// Common scaffolding of every property harness (no ufw headers in here).
//
//   harness --tier quick|thorough --seed N [--shard i --nshards n]
//           --out result.json [--fp fingerprints.bin] [--case current-case.txt]
//           [--exclude key,key,...]
//   harness --replay FILE      (exit 0: case passes, exit 3: case fails)
//
// A run never decides "violation" by itself: it records failures (key, message,
// replay text) into the result file; the driver (../check) re-executes each of
// them three times through --replay, matches them against known-findings.txt
// and prints the VIOLATION lines.  A sanitizer abort kills the process; the
// death callback then writes the case that was being executed to --case.
#pragma once
#if defined(__has_include)
#if __has_include(<valgrind/memcheck.h>)
#include <sys/mman.h>
#include <sys/resource.h>
#include <fenv.h>
#include <locale.h>
#include <xmmintrin.h>
#include <time.h>
#include <valgrind/memcheck.h>
#define VP_HAVE_VALGRIND 1
#endif
#endif
#include <algorithm>
#include <cinttypes>
#include <csetjmp>
#include <csignal>
#include <cstdarg>
#include <cstdint>
#include <cstdio>
#include <cstdlib>
#include <cstring>
#include <functional>
#include <map>
#include <set>
#include <string>
#include <unordered_set>
#include <vector>
#include <unistd.h>

extern "C" void __sanitizer_set_death_callback(void (*)(void)) __attribute__((weak));

namespace vp {

// ---------------------------------------------------------------- arguments
struct Args {
    std::string tier = "quick";
    uint64_t seed = 1;
    unsigned shard = 0, nshards = 1;
    std::string out, fp, casefile, replay;
    std::set<std::string> exclude;
    bool thorough() const { return tier == "thorough"; }
};
inline Args &args() { static Args a; return a; }

// ---------------------------------------------------------------- RNG
// Deterministic generator (splitmix64 → xoshiro256**), seeded from VERIF_SEED
// and the shard number only.  Used by the enumerating/sampling engine; the
// rapidcheck harnesses draw everything from rapidcheck's own generators.
struct Rng {
    uint64_t s[4];
    static uint64_t sm(uint64_t &x) {
        uint64_t z = (x += 0x9e3779b97f4a7c15ull);
        z = (z ^ (z >> 30)) * 0xbf58476d1ce4e5b9ull;
        z = (z ^ (z >> 27)) * 0x94d049bb133111ebull;
        return z ^ (z >> 31);
    }
    explicit Rng(uint64_t seed = 1) { reseed(seed); }
    void reseed(uint64_t seed) { for (auto &v : s) v = sm(seed); }
    static uint64_t rotl(uint64_t x, int k) { return (x << k) | (x >> (64 - k)); }
    uint64_t next() {
        uint64_t r = rotl(s[1] * 5, 7) * 9, t = s[1] << 17;
        s[2] ^= s[0]; s[3] ^= s[1]; s[1] ^= s[2]; s[0] ^= s[3]; s[2] ^= t;
        s[3] = rotl(s[3], 45);
        return r;
    }
    uint64_t below(uint64_t n) { return n ? next() % n : 0; }
    int64_t range(int64_t lo, int64_t hi) { return lo + (int64_t)below((uint64_t)(hi - lo + 1)); }
    bool chance(unsigned num, unsigned den) { return below(den) < num; }
    template <class T> const T &pick(const std::vector<T> &v) { return v[below(v.size())]; }
    uint8_t byte() { return (uint8_t)next(); }
};

// ---------------------------------------------------------------- hashing
inline uint64_t fnv(const void *p, size_t n, uint64_t h = 0xcbf29ce484222325ull) {
    const unsigned char *c = (const unsigned char *)p;
    for (size_t i = 0; i < n; i++) { h ^= c[i]; h *= 0x100000001b3ull; }
    return h;
}
inline uint64_t fnv(const std::string &s, uint64_t h = 0xcbf29ce484222325ull) { return fnv(s.data(), s.size(), h); }
inline uint64_t mix(uint64_t h, uint64_t v) { return fnv(&v, sizeof v, h); }

inline std::string fmt(const char *f, ...) {
    char buf[4096];
    va_list ap; va_start(ap, f);
    va_list ap2; va_copy(ap2, ap);
    int n = vsnprintf(buf, sizeof buf, f, ap);
    va_end(ap);
    if (n < 0) { va_end(ap2); return std::string(); }
    if ((size_t)n < sizeof buf) { va_end(ap2); return std::string(buf, (size_t)n); }
    std::string big((size_t)n + 1, '\0');           // long serialisations (large payloads) must not be cut: replay files are parsed back
    vsnprintf(&big[0], big.size(), f, ap2);
    va_end(ap2);
    big.resize((size_t)n);
    return big;
}
inline std::string hex(const void *p, size_t n) {
    static const char *d = "0123456789abcdef";
    std::string s; const unsigned char *c = (const unsigned char *)p;
    for (size_t i = 0; i < n; i++) { s += d[c[i] >> 4]; s += d[c[i] & 15]; }
    return s;
}
inline std::string hex(const std::vector<uint8_t> &v) { return hex(v.data(), v.size()); }
inline std::vector<uint8_t> unhex(const std::string &s) {
    std::vector<uint8_t> v;
    auto val = [](char c) { return c <= '9' ? c - '0' : (c | 32) - 'a' + 10; };
    for (size_t i = 0; i + 1 < s.size(); i += 2) v.push_back((uint8_t)(val(s[i]) * 16 + val(s[i + 1])));
    return v;
}
inline std::string json_escape(const std::string &s) {
    std::string o;
    for (unsigned char c : s) {
        if (c == '"' || c == '\\') { o += '\\'; o += (char)c; }
        else if (c == '\n') o += "\\n";
        else if (c == '\t') o += "\\t";
        else if (c < 0x20 || c >= 0x7f) o += fmt("\\u%04x", c);
        else o += (char)c;
    }
    return o;
}

// ---------------------------------------------------------------- statistics
struct Failure { std::string key, msg, replay; };

struct Stats {
    uint64_t evaluations = 0;
    uint64_t dontcare = 0;
    uint64_t excluded = 0;
    bool fp_capped = false;
    std::unordered_set<uint64_t> nontrivial;
    std::map<std::string, uint64_t> classes;
    std::vector<std::string> samples;
    uint64_t sample_seen = 0;
    std::vector<Failure> failures;
    std::set<std::string> failure_keys;
    std::map<std::string, std::string> notes;   // extra string-valued keys for the evidence
    std::map<std::string, uint64_t> numbers;    // extra integer keys for the evidence
    std::string rule;
    bool exhaustive = false;
};
inline Stats &stats() { static Stats s; return s; }
static const size_t FP_CAP = 3000000;

struct VgState { bool on = false; unsigned long errs = 0; double deadline = 0; bool stopped = false; };
inline VgState &vg() { static VgState v; return v; }
inline void vg_poll();
inline void count(uint64_t n = 1) { stats().evaluations += n; if (vg().on) vg_poll(); }
inline void cls(const char *name, uint64_t n = 1) { stats().classes[name] += n; }
inline void cls(const std::string &name, uint64_t n = 1) { stats().classes[name] += n; }
inline void nontrivial(uint64_t fingerprint) {
    Stats &s = stats();
    if (s.nontrivial.size() >= FP_CAP) { s.fp_capped = true; return; }
    s.nontrivial.insert(fingerprint);
}
// keep the first 3 cases and then every case whose ordinal is a power of two:
// cheap, deterministic, and spread over the whole run
inline bool want_sample() {
    Stats &s = stats();
    uint64_t k = ++s.sample_seen;
    return k <= 3 || (k & (k - 1)) == 0;
}
inline void sample(const std::string &text) {
    Stats &s = stats();
    if (s.samples.size() < 40) s.samples.push_back(text);
    else s.samples[3 + (s.sample_seen % 37)] = text;
}
#define VP_SAMPLE(expr) do { if (vp::want_sample()) vp::sample(expr); } while (0)

inline bool excluded(const std::string &key) { return args().exclude.count(key) != 0; }

// record a failure (first one per key keeps its replay text)
inline void fail(const std::string &key, const std::string &msg, const std::string &replay) {
    Stats &s = stats();
    if (s.failure_keys.count(key)) { s.classes["fail:" + key]++; return; }
    s.failure_keys.insert(key);
    s.classes["fail:" + key]++;
    s.failures.push_back({key, msg, replay});
    fprintf(stderr, "[harness] FAILURE key=%s %s\n", key.c_str(), msg.c_str());
}
inline bool too_many_failures() { return stats().failures.size() >= 12; }

// ---------------------------------------------------------------- crash capture
// The harness registers a callable that serialises the case in flight.  It is
// only invoked from the sanitizer death callback / fatal signal handler.
struct CurrentCase {
    std::function<std::string()> fn;
    const char *stage = "";
};
inline CurrentCase &current() { static CurrentCase c; return c; }
struct CaseScope {
    std::function<std::string()> saved;
    explicit CaseScope(std::function<std::string()> f) { saved = std::move(current().fn); current().fn = std::move(f); }
    ~CaseScope() { current().fn = std::move(saved); }
};
inline void write_file(const std::string &path, const std::string &text) {
    FILE *f = fopen(path.c_str(), "w");
    if (!f) return;
    fwrite(text.data(), 1, text.size(), f);
    fclose(f);
}
inline void dump_current_case() {
    static bool done = false;
    if (done) return;
    done = true;
    if (args().casefile.empty() || !current().fn) return;
    std::string t = current().fn();
    write_file(args().casefile, t);
}
inline void death_cb() { dump_current_case(); }
// Run under valgrind (unsanitized build; `vg` targets): memcheck sees reads and writes outside heap blocks byte-exactly, whatever the code
// under test knows about sanitizers. After every evaluation the error counter is polled; a new error is attributed to the case in flight.
// The run ends (cleanly, "inconclusive beyond this point") when its wall-clock budget is used up: valgrind is 20-50 times slower.
struct StopRun {};
inline double now_s() { struct timespec t; clock_gettime(CLOCK_MONOTONIC, &t); return (double)t.tv_sec + (double)t.tv_nsec * 1e-9; }
inline void vg_poll() {
#ifdef VP_HAVE_VALGRIND
    VgState &v = vg();
    unsigned long e = VALGRIND_COUNT_ERRORS;
    if (e > v.errs) {
        v.errs = e;
        fail("valgrind:memory-error", "memcheck reported an invalid access or a use of uninitialised memory while this case ran (unsanitized build; the report is in the run log)",
             current().fn ? current().fn() : std::string());
    }
    static unsigned calls = 0;
    if ((++calls & 0x3ff) == 0 && v.deadline > 0 && now_s() > v.deadline && !v.stopped) { v.stopped = true; throw StopRun(); }
#endif
}
// watchdog: SIGALRM every 10 s; if no case was counted for 6 periods in a row the case in flight does not terminate
struct Watch { volatile uint64_t last = 0; volatile int idle = 0; volatile uint64_t beat = 0; };
inline Watch &watch() { static Watch w; return w; }
inline void alive() { watch().beat++; }
inline void sig_cb(int sig) {
    if (sig == SIGALRM && !args().replay.size()) {
        Watch &w = watch();
        uint64_t now = stats().evaluations + w.beat;
        if (now != w.last) { w.last = now; w.idle = 0; alarm(10); return; }
        if (++w.idle < 6) { alarm(10); return; }
    }
    dump_current_case();
    if (sig == SIGALRM) { static const char m[] = "[harness] ALARM: case did not terminate\n"; (void)!write(2, m, sizeof m - 1); _exit(4); }
    { char m[64]; int n = snprintf(m, sizeof m, "[harness] FATAL-SIGNAL %d (%s)\n", sig, sig == SIGFPE ? "FPE" : sig == SIGSEGV ? "SEGV" : sig == SIGBUS ? "BUS" : sig == SIGILL ? "ILL" : "ABRT"); (void)!write(2, m, (size_t)n); }
    _exit(5);
}
// ambient state of the calling process that the library has no business depending on (beyond what IEEE / ISO C say), selected by the
// driver through the environment so that one binary serves several targets:
//   VP_FPENV: "ftz" flush-to-zero on (SSE), "trap" invalid/divide-by-zero/overflow exceptions unmasked (a NaN in a signalling comparison
//             then is a SIGFPE), "up"/"down"/"zero" rounding direction;   VP_LOCALE: setlocale(LC_CTYPE, that) (LOCPATH set by the driver)
inline void apply_ambient() {
    if (const char *e = getenv("VP_FPENV")) {
        std::string v = e;
        if (v.find("ftz") != std::string::npos) _mm_setcsr(_mm_getcsr() | 0x8000u);
        if (v.find("up") != std::string::npos) fesetround(FE_UPWARD);
        if (v.find("down") != std::string::npos) fesetround(FE_DOWNWARD);
        if (v.find("zero") != std::string::npos) fesetround(FE_TOWARDZERO);
        if (v.find("trap") != std::string::npos) feenableexcept(FE_INVALID | FE_DIVBYZERO | FE_OVERFLOW);
        stats().notes["fpenv"] = "floating-point environment of the process for this target: " + v;
    }
    if (const char *r = getenv("VP_RLIMIT")) {
        // resource limits of the process: "stack-unlimited" is what `ulimit -s unlimited` / systemd LimitSTACK=infinity give an application
        if (strstr(r, "stack-unlimited")) { struct rlimit rl; if (getrlimit(RLIMIT_STACK, &rl) == 0) { rl.rlim_cur = rl.rlim_max; setrlimit(RLIMIT_STACK, &rl); stats().notes["rlimit"] = rl.rlim_max == RLIM_INFINITY ? "soft stack limit of the process: unlimited" : "soft stack limit raised to the hard limit (not unlimited on this host)"; } }
    }
    if (const char *l = getenv("VP_LOCALE")) {
        const char *r = setlocale(LC_CTYPE, l);
        stats().notes["locale"] = std::string("LC_CTYPE locale of the process for this target: ") + (r ? r : "(could not be set - target ran in the C locale)");
        if (!r) { fprintf(stderr, "[harness] locale %s not available\n", l); exit(9); }
    }
}

// ---------------------------------------------------------------- result file
inline void write_result() {
    Stats &s = stats();
    if (args().out.empty()) return;
    FILE *f = fopen(args().out.c_str(), "w");
    if (!f) { perror("result"); exit(9); }
    fprintf(f, "{\n \"evaluations\": %" PRIu64 ",\n \"distinct_nontrivial\": %zu,\n", s.evaluations, s.nontrivial.size());
    fprintf(f, " \"fp_capped\": %s,\n \"dontcare\": %" PRIu64 ",\n \"excluded\": %" PRIu64 ",\n", s.fp_capped ? "true" : "false", s.dontcare, s.excluded);
    fprintf(f, " \"exhaustive\": %s,\n", s.exhaustive ? "true" : "false");
    fprintf(f, " \"rule\": \"%s\",\n", json_escape(s.rule).c_str());
    fprintf(f, " \"classes\": {");
    bool first = true;
    for (auto &kv : s.classes) { fprintf(f, "%s\n  \"%s\": %" PRIu64, first ? "" : ",", json_escape(kv.first).c_str(), kv.second); first = false; }
    fprintf(f, "\n },\n \"numbers\": {");
    first = true;
    for (auto &kv : s.numbers) { fprintf(f, "%s\n  \"%s\": %" PRIu64, first ? "" : ",", json_escape(kv.first).c_str(), kv.second); first = false; }
    fprintf(f, "\n },\n \"notes\": {");
    first = true;
    for (auto &kv : s.notes) { fprintf(f, "%s\n  \"%s\": \"%s\"", first ? "" : ",", json_escape(kv.first).c_str(), json_escape(kv.second).c_str()); first = false; }
    fprintf(f, "\n },\n \"samples\": [");
    first = true;
    for (auto &t : s.samples) { fprintf(f, "%s\n  \"%s\"", first ? "" : ",", json_escape(t).c_str()); first = false; }
    fprintf(f, "\n ],\n \"failures\": [");
    first = true;
    for (auto &fl : s.failures) {
        fprintf(f, "%s\n  {\"key\": \"%s\", \"msg\": \"%s\", \"replay\": \"%s\"}", first ? "" : ",",
                json_escape(fl.key).c_str(), json_escape(fl.msg).c_str(), json_escape(fl.replay).c_str());
        first = false;
    }
    fprintf(f, "\n ]\n}\n");
    fclose(f);
    if (!args().fp.empty()) {
        std::vector<uint64_t> v(s.nontrivial.begin(), s.nontrivial.end());
        std::sort(v.begin(), v.end());
        FILE *g = fopen(args().fp.c_str(), "wb");
        if (g) { if (!v.empty()) fwrite(v.data(), 8, v.size(), g); fclose(g); }
    }
}

inline std::string read_file(const std::string &path) {
    FILE *f = fopen(path.c_str(), "rb");
    if (!f) { fprintf(stderr, "cannot read %s\n", path.c_str()); exit(9); }
    std::string s; char buf[65536]; size_t n;
    while ((n = fread(buf, 1, sizeof buf, f)) > 0) s.append(buf, n);
    fclose(f);
    return s;
}
// replay files: lines starting with '#' are comments (the driver writes a
// header there); the rest is harness specific
inline std::string strip_comments(const std::string &t) {
    std::string o; size_t i = 0;
    while (i < t.size()) {
        size_t e = t.find('\n', i); if (e == std::string::npos) e = t.size();
        if (t[i] != '#') { o.append(t, i, e - i); o += '\n'; }
        i = e + 1;
    }
    return o;
}
inline std::vector<std::string> split(const std::string &s, char sep = ' ') {
    std::vector<std::string> v; std::string cur;
    for (char c : s) { if (c == sep) { if (!cur.empty()) v.push_back(cur); cur.clear(); } else cur += c; }
    if (!cur.empty()) v.push_back(cur);
    return v;
}
inline std::vector<std::string> lines(const std::string &s) { return split(s, '\n'); }

// harness entry points, supplied by each property file
//   run():    generate/enumerate; record failures with vp::fail()
//   replay(): run the oracle on one serialised case; return true when it passes
struct Harness {
    std::function<void()> run;
    std::function<bool(const std::string &)> replay;
};

inline int main_(int argc, char **argv, const Harness &h) {
    Args &a = args();
    for (int i = 1; i < argc; i++) {
        std::string k = argv[i];
        auto val = [&]() -> std::string { if (i + 1 >= argc) { fprintf(stderr, "missing value for %s\n", k.c_str()); exit(9); } return argv[++i]; };
        if (k == "--tier") a.tier = val();
        else if (k == "--seed") a.seed = strtoull(val().c_str(), nullptr, 10);
        else if (k == "--shard") a.shard = (unsigned)atoi(val().c_str());
        else if (k == "--nshards") a.nshards = (unsigned)atoi(val().c_str());
        else if (k == "--out") a.out = val();
        else if (k == "--fp") a.fp = val();
        else if (k == "--case") a.casefile = val();
        else if (k == "--replay") a.replay = val();
        else if (k == "--exclude") { for (auto &e : split(val(), ',')) a.exclude.insert(e); }
        else { fprintf(stderr, "unknown argument %s\n", k.c_str()); return 9; }
    }
    if (__sanitizer_set_death_callback) __sanitizer_set_death_callback(death_cb);
    else for (int sg : {SIGSEGV, SIGBUS, SIGFPE, SIGILL, SIGABRT}) signal(sg, sig_cb);   // unsanitized builds: the case in flight is written out all the same
    signal(SIGALRM, sig_cb);
    apply_ambient();
    if (!a.replay.empty()) {
        std::string text = strip_comments(read_file(a.replay));
        alarm(60);
#ifdef VP_HAVE_VALGRIND
        if (RUNNING_ON_VALGRIND) vg().on = true;
#endif
        bool ok = h.replay(text);
        // a replay may also record failures through the ordinary oracle path
        if (!stats().failures.empty()) ok = false;
#ifdef VP_HAVE_VALGRIND
        if (RUNNING_ON_VALGRIND && VALGRIND_COUNT_ERRORS > 0) ok = false;
#endif
        printf("[replay] %s: %s\n", a.replay.c_str(), ok ? "pass" : "FAIL");
        for (auto &f : stats().failures) printf("[replay]   key=%s %s\n", f.key.c_str(), f.msg.c_str());
        return ok ? 0 : 3;
    }
#ifdef VP_HAVE_VALGRIND
    if (RUNNING_ON_VALGRIND) {
        vg().on = true;
        const char *b = getenv("VP_VG_SECONDS");
        vg().deadline = now_s() + (b ? atof(b) : 15.0);
    }
#endif
    alarm(10);     // progress watchdog (see sig_cb)
    try { h.run(); } catch (const StopRun &) { stats().exhaustive = false; stats().notes["valgrind_budget"] = "wall-clock budget of the valgrind run used up: cases beyond this point were not run (inconclusive, not a violation)"; }
    alarm(0);
    if (vg().on) { stats().exhaustive = false; stats().notes["valgrind"] = "this target ran the unsanitized build under memcheck (--partial-loads-ok=no)"; }
    write_result();
    return 0;
}

// compile-time probes (shims/pp_probes.c): public macros evaluated inside #if, as array sizes, enumeration constants and static initialisers
typedef int (*PpProbe)(void (*)(const char *));
inline std::vector<std::string> &pp_bad() { static std::vector<std::string> v; return v; }
inline void pp_phase(PpProbe probe, const char *group) {
    std::string rep = std::string("pp ") + group + "\n";
    CaseScope scope([rep] { return rep; });
    pp_bad().clear();
    probe([](const char *w) { pp_bad().push_back(w); });
    count(); cls("public-macros-in-preprocessor-conditionals-and-constant-expressions"); nontrivial(fnv(rep));
    for (auto &b : pp_bad()) { std::string k = b.substr(0, b.find_first_of(" (")); fail("macro-at-translation-time:" + k, b + " (evaluated at translation time in a C caller; as a run-time expression the macro may still be right)", rep); }
}

// VP_MAIN: the harness's main(). With VP_PREMAIN=1 in the environment the whole run happens BEFORE main(): from a dynamic initialiser at the
// end of the harness's translation unit, i.e. after this unit's own globals but before the constructors of everything linked behind it
// (the library's objects come last on the link line). A library that prepares state in a constructor, or lazily in a way that assumes
// main() has been entered, is then called earlier than it expects - as from an application's own constructors or C++ static initialisers.
inline int premain_run(const Harness &h) {
    const char *e = getenv("VP_PREMAIN");
    if (!e || *e != '1') return 0;
    std::string raw = read_file("/proc/self/cmdline");
    std::vector<std::string> av; { std::string cur; for (char c : raw) { if (c == 0) { av.push_back(cur); cur.clear(); } else cur += c; } if (!cur.empty()) av.push_back(cur); }
    std::vector<char *> argv; for (auto &x : av) argv.push_back(&x[0]);
    stats().notes["premain"] = "this target ran the whole harness before main() was entered (from a static initialiser of the harness)";
    exit(main_((int)argv.size(), argv.data(), h));
}
#define VP_MAIN(RUN, REPLAY) \
    static int vp_premain_done_ = vp::premain_run({RUN, REPLAY}); \
    int main(int argc, char **argv) { (void)vp_premain_done_; return vp::main_(argc, argv, {RUN, REPLAY}); }

// ---------------------------------------------------------------- memory helpers
// Exact-size heap block: ASan red zones sit directly before and after it.
struct Block {
    uint8_t *p = nullptr; size_t n = 0;
    explicit Block(size_t size, int fill = 0xa5) : n(size) { p = (uint8_t *)malloc(size ? size : 1); memset(p, fill, size ? size : 1); }
    Block(const Block &) = delete; Block &operator=(const Block &) = delete;
    ~Block() { free(p); }
};

// Read-only block: the octets sit at the very end of a private mapping that is then made PROT_READ (what a const table in flash or a
// file mapped read-only looks like to the code): a function that is handed input must not write to it, not even temporarily.
struct RoBlock {
    uint8_t *p = nullptr; size_t n = 0; void *map = nullptr; size_t maplen = 0;
    RoBlock(const void *data, size_t size) : n(size) {
        size_t page = 4096; maplen = ((size ? size : 1) + page - 1) / page * page;
        map = mmap(nullptr, maplen, PROT_READ | PROT_WRITE, MAP_PRIVATE | MAP_ANONYMOUS, -1, 0);
        if (map == MAP_FAILED) { map = nullptr; p = nullptr; return; }
        p = (uint8_t *)map + maplen - size;
        if (size) memcpy(p, data, size);
        mprotect(map, maplen, PROT_READ);
    }
    RoBlock(const RoBlock &) = delete; RoBlock &operator=(const RoBlock &) = delete;
    ~RoBlock() { if (map) munmap(map, maplen); }
};

// callback budget: harness-owned callbacks call tick(); exceeding the budget
// means "no progress" and unwinds to the case loop with longjmp
struct Budget {
    uint64_t left = 0; jmp_buf jb; bool armed = false;
};
inline Budget &budget() { static Budget b; return b; }
inline void tick() {
    Budget &b = budget();
    if (!b.armed) return;
    if (b.left-- == 0) { b.armed = false; longjmp(b.jb, 1); }
}
// usage: if (VP_BUDGET(1000)) { ...calls... vp::budget().armed=false; } else { no progress }
#define VP_BUDGET(n) (vp::budget().left = (n), vp::budget().armed = true, setjmp(vp::budget().jb) == 0)

} // namespace vp
