// rapidcheck glue: run a property over a generator, keep the last failing
// (i.e. the shrunk) case in serialised form, hand it to vp::fail().
#pragma once
#include <rapidcheck.h>
#include "support/vp.hpp"

namespace vprc {

// uniform integer in [lo, hi], independent of rapidcheck's size parameter
template <class T> rc::Gen<T> uni(T lo, T hi) { return rc::gen::resize(100, rc::gen::inRange<T>(lo, (T)(hi + 1))); }

struct Last { std::string key, msg, replay; };
inline Last &last() { static Last l; return l; }

// oracle: const T& -> failure key ("" = pass); ser: const T& -> replay text
template <class T, class Oracle, class Ser>
void check(const std::string &name, rc::Gen<T> gen, Oracle oracle, Ser ser) {
    last() = Last();
    bool ok = rc::check(name, [&]() {
        T c = *gen;
        vp::CaseScope scope([&] { return ser(c); });
        std::string key = oracle(c);
        if (!key.empty()) {
            if (vp::excluded(key)) { vp::stats().excluded++; return; }
            last().key = key; last().replay = ser(c);   // (the oracle may have set last().msg)
            RC_FAIL(key);
        }
    });
    if (!ok) {
        if (last().key.empty()) vp::fail("rapidcheck:gave-up-or-error", "rapidcheck reported failure without an oracle key (" + name + ")", "");
        else vp::fail(last().key, (last().msg.empty() ? std::string() : last().msg + " - ") + "shrunk counterexample of '" + name + "'", last().replay);
    }
}

} // namespace vprc
