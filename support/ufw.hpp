// Include this before any ufw header from C++.
// ufw/compat/ssize-t.h closes an `extern "C" {` it never opened when compiled as
// C++ on a host with <sys/types.h>; the harnesses provide what that header
// provides and pre-define its include guard instead of relying on it.
#pragma once
#include <limits.h>
#include <stddef.h>
#include <stdint.h>
#include <sys/types.h>
#include <ufw/toolchain.h>
#ifndef SSIZE_MAX
#define SSIZE_MAX ((SIZE_MAX) >> 1u)
#endif
#ifndef INC_UFW_UFW_COMPAT_SSIZE_T_H
#define INC_UFW_UFW_COMPAT_SSIZE_T_H
#endif
