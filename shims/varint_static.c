/* A bare-metal style C caller of the source/sink varint coders: one receive and one transmit channel whose state lives in file-scope
 * statics that never have their address taken, octet drivers that work on those statics, and small non-inlined helpers around the library
 * calls - all in one translation unit, compiled with optimisation by the compiler of the build variant (gcc in the `gcc` variant).
 * What the compiler is told about the callees in the public header (attributes on the prototypes) decides how this file is compiled. */
#include <stddef.h>
#include <stdint.h>
#include <string.h>
#include <ufw/compat/errno.h>
#include <ufw/endpoints.h>
#include <ufw/variable-length-integer.h>
#include "shims/varint_static.h"

static const unsigned char rx_idle[1] = { 0u };
static const unsigned char *rx_data = rx_idle;
static size_t rx_len;
static size_t rx_pos;
static unsigned char tx_data[16];
static size_t tx_len;

static int rx_octet(void *driver, void *out)
{
    (void)driver;
    if (rx_pos >= rx_len) {
        return -ENODATA;
    }
    *(unsigned char *)out = rx_data[rx_pos++];
    return 1;
}
static int tx_octet(void *driver, unsigned char c)
{
    (void)driver;
    if (tx_len >= sizeof tx_data) {
        return -ENOMEM;
    }
    tx_data[tx_len++] = c;
    return 1;
}
static Source rx = OCTET_SOURCE_INIT(rx_octet, NULL);
static Sink tx = OCTET_SINK_INIT(tx_octet, NULL);

#define NOINLINE __attribute__((noinline))
static NOINLINE int get_u32(uint32_t *v) { return varint_u32_from_source(&rx, v); }
static NOINLINE int get_s32(int32_t *v) { return varint_s32_from_source(&rx, v); }
static NOINLINE int get_u64(uint64_t *v) { return varint_u64_from_source(&rx, v); }
static NOINLINE int get_s64(int64_t *v) { return varint_s64_from_source(&rx, v); }
static NOINLINE int put_u32(uint32_t v) { return varint_u32_to_sink(&tx, v); }
static NOINLINE int put_s32(int32_t v) { return varint_s32_to_sink(&tx, v); }
static NOINLINE int put_u64(uint64_t v) { return varint_u64_to_sink(&tx, v); }
static NOINLINE int put_s64(int64_t v) { return varint_s64_to_sink(&tx, v); }

int vp_vstatic_decode(int kind, const unsigned char *wire, size_t n, uint64_t *raw, size_t *consumed)
{
    int rc;
    rx_data = wire;
    rx_len = n;
    rx_pos = 0u;
    switch (kind) {
    case 0: { uint32_t v = 0u; rc = get_u32(&v); *raw = v; break; }
    case 1: { int32_t v = 0; rc = get_s32(&v); *raw = (uint32_t)v; break; }
    case 2: { uint64_t v = 0u; rc = get_u64(&v); *raw = v; break; }
    default: { int64_t v = 0; rc = get_s64(&v); *raw = (uint64_t)v; break; }
    }
    *consumed = rx_pos;
    rx_data = rx_idle;
    rx_len = 0u;
    return rc;
}

int vp_vstatic_encode(int kind, uint64_t raw, unsigned char *out16, size_t *len)
{
    int rc;
    tx_len = 0u;
    switch (kind) {
    case 0: rc = put_u32((uint32_t)raw); break;
    case 1: rc = put_s32((int32_t)(uint32_t)raw); break;
    case 2: rc = put_u64(raw); break;
    default: rc = put_s64((int64_t)raw); break;
    }
    *len = tx_len;
    memcpy(out16, tx_data, sizeof tx_data);
    return rc;
}
