/* The API called the way C code calls it: compiled as C against the library's headers, so that whatever the headers do for C callers only
 * (function-like macros, _Generic / __builtin_choose_expr dispatch on the argument's type) is part of what is checked. */
#include <string.h>
#include <ufw/sx.h>
#include "c_callers.h"

/* a line buffer that is larger than its text and holds stale octets behind the terminator, passed as an array-typed expression */
struct sx_parse_result vp_sx_parse_line(const char *text, size_t n)
{
    char line[64];
    memset(line, '7', sizeof line);           /* what an earlier, longer line left behind */
    line[62] = ')'; line[63] = '\0';
    memcpy(line, text, n);
    line[n] = '\0';
    return sx_parse_string(line);
}
/* the same through a struct member (also array-typed) */
struct vp_record { int tag; char text[48]; int after; };
struct sx_parse_result vp_sx_parse_member(const char *text, size_t n)
{
    struct vp_record r;
    memset(&r, 'x', sizeof r);
    memcpy(r.text, text, n);
    r.text[n] = '\0';
    return sx_parse_string(r.text);
}
/* and with a string literal */
struct sx_parse_result vp_sx_parse_literal(int which)
{
    switch (which) {
    case 0: return sx_parse_string("(a 42 #xFF)");
    case 1: return sx_parse_string("  foo  ");
    default: return sx_parse_string("12345");
    }
}
