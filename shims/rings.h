/* ring buffers of other element types, instantiated from the library's macros */
#ifndef VP_RINGS_H
#define VP_RINGS_H
#include <stdint.h>
#include <ufw/ring-buffer.h>
#include <ufw/ring-buffer-iter.h>
#include <ufw/octet-ring.h>
#ifdef __cplusplus
extern "C" {
#endif
RING_BUFFER_API(u32_ring, uint32_t)
RING_BUFFER_ITER_API(u32_ring, uint32_t)
RING_BUFFER_API(s16_ring, int16_t)
RING_BUFFER_ITER_API(s16_ring, int16_t)
RING_BUFFER_API(f64_ring, double)
RING_BUFFER_ITER_API(f64_ring, double)
/* a queue of buffer pointers, the element type spelled with its '*' in the macro argument (not hidden behind a typedef) */
RING_BUFFER_API(ptr_ring, uint8_t *)
RING_BUFFER_ITER_API(ptr_ring, uint8_t *)
/* the override switch called the way C callers do: with whatever integer expression they have (a masked configuration word, a count) */
void vp_octet_ring_ovr(octet_ring *r, int v);
void vp_u32_ring_ovr(u32_ring *r, int v);
void vp_s16_ring_ovr(s16_ring *r, int v);
void vp_f64_ring_ovr(f64_ring *r, int v);
void vp_ptr_ring_ovr(ptr_ring *r, int v);
#ifdef __cplusplus
}
#endif
#endif
