#pragma once
#ifdef __cplusplus
extern "C" {
#endif
typedef void (*vp_pp_report)(const char *what);
int vp_pp_rfc1055(vp_pp_report report);
int vp_pp_varint(vp_pp_report report);
int vp_pp_regp(vp_pp_report report);
#ifdef __cplusplus
}
#endif
