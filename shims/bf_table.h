/* uniform function-pointer view on all bf_ref_*, bf_set_*, bf_swap*, bf_inrange_* of <ufw/binary-format.h> */
#ifndef VP_BF_TABLE_H
#define VP_BF_TABLE_H
#include <stdint.h>
#ifdef __cplusplus
extern "C" {
#endif
struct bf_accessor {
    const char *name;      /* e.g. "s24b" */
    unsigned width;        /* bits */
    char kind;             /* 'u' 's' 'f' */
    char order;            /* 'b' 'l' 'n' */
    uint64_t (*ref)(const void *);       /* value, sign-extended to 64 bits; floats: bit pattern */
    void *(*set)(void *, uint64_t);      /* same representation */
};
struct bf_swapper { unsigned width; uint64_t (*swap)(uint64_t); };
struct bf_range { const char *name; unsigned width; char kind; int (*inrange)(int64_t raw); unsigned argbits; };
extern const struct bf_accessor bf_accessors[];
extern const unsigned bf_accessor_count;
extern const struct bf_swapper bf_swappers[];
extern const unsigned bf_swapper_count;
extern const struct bf_range bf_ranges[];
extern const unsigned bf_range_count;
extern const int bf_builtin_swap;
#ifdef __cplusplus
}
#endif
#endif
