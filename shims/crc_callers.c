/* C callers of the word-CRC functions whose count is not a size_t: a 32-bit variable, an unsigned expression, a literal. Whatever the header
 * turns the call into (a function call converts the count to size_t before anything is computed; a macro computes in the type it is handed). */
#include <stddef.h>
#include <stdint.h>
#include <ufw/crc/crc16-arc.h>
#include "shims/crc_callers.h"
uint16_t vp_crc_u16_count32(uint16_t crc, const uint16_t *buf, uint32_t nwords) { return ufw_crc16_arc_u16(crc, buf, nwords); }
uint16_t vp_crc_u16_unsigned(uint16_t crc, const uint16_t *buf, unsigned a, unsigned b) { return ufw_crc16_arc_u16(crc, buf, a + b); }
uint16_t vp_crc_u16_literal31(uint16_t crc, const uint16_t *buf) { return ufw_crc16_arc_u16(crc, buf, 0x80000000); }
uint16_t vp_crc_buffer_u16_count32(const uint16_t *buf, uint32_t nwords) { return ufw_buffer_crc16_arc_u16(buf, nwords); }
