#include "shims/rings.h"
RING_BUFFER(u32_ring, uint32_t)
RING_BUFFER_ITER(u32_ring, uint32_t)
RING_BUFFER(s16_ring, int16_t)
RING_BUFFER_ITER(s16_ring, int16_t)
RING_BUFFER(f64_ring, double)
RING_BUFFER_ITER(f64_ring, double)
