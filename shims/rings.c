#include "shims/rings.h"
RING_BUFFER(u32_ring, uint32_t)
RING_BUFFER_ITER(u32_ring, uint32_t)
RING_BUFFER(s16_ring, int16_t)
RING_BUFFER_ITER(s16_ring, int16_t)
RING_BUFFER(f64_ring, double)
RING_BUFFER_ITER(f64_ring, double)
RING_BUFFER(ptr_ring, uint8_t *)
RING_BUFFER_ITER(ptr_ring, uint8_t *)
void vp_octet_ring_ovr(octet_ring *r, int v) { octet_ring_override_if_full(r, v); }
void vp_u32_ring_ovr(u32_ring *r, int v) { u32_ring_override_if_full(r, v); }
void vp_s16_ring_ovr(s16_ring *r, int v) { s16_ring_override_if_full(r, v); }
void vp_f64_ring_ovr(f64_ring *r, int v) { f64_ring_override_if_full(r, v); }
void vp_ptr_ring_ovr(ptr_ring *r, int v) { ptr_ring_override_if_full(r, v); }
