/* The codec table once more, in a translation unit that has already seen a platform's utility macros when the ufw headers arrive - what
 * <zephyr/sys/util_macro.h>, Linux <linux/bits.h> and ESP-IDF give every file they are included in. ufw documents Zephyr compatibility for
 * exactly these names (bit-operations.h replaces BIT and BIT_MASK). Header-only code must not change meaning with them. */
#include "platform_macros.h"
#include "bf_table.c"
