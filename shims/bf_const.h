#ifndef VP_BF_CONST_H
#define VP_BF_CONST_H
#include <stdint.h>
#ifdef __cplusplus
extern "C" {
#endif
/* name of the function, the constant it was given, the octets it stored (n > 0) or read (ref), its result (swap, ref) */
typedef void (*vp_const_report)(const char *name, uint64_t constant, const unsigned char *image, unsigned n, uint64_t result);
void vp_const_run(vp_const_report report);
#ifdef __cplusplus
}
#endif
#endif
