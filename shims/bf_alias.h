#ifndef VP_BF_ALIAS_H
#define VP_BF_ALIAS_H
#include <stdint.h>
#ifdef __cplusplus
extern "C" {
#endif
struct vp_alias_probe { const char *name; int (*run)(void *mem, uint64_t x, uint64_t y); };
extern const struct vp_alias_probe vp_alias_probes[];
extern const unsigned vp_alias_probe_count;
#ifdef __cplusplus
}
#endif
#endif
