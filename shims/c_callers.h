#ifndef VP_C_CALLERS_H
#define VP_C_CALLERS_H
#include <stddef.h>
#include <ufw/sx.h>
#ifdef __cplusplus
extern "C" {
#endif
struct sx_parse_result vp_sx_parse_line(const char *text, size_t n);     /* n <= 61 */
struct sx_parse_result vp_sx_parse_member(const char *text, size_t n);   /* n <= 47 */
struct sx_parse_result vp_sx_parse_literal(int which);
#ifdef __cplusplus
}
#endif
#endif
