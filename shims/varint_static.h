#pragma once
#include <stddef.h>
#include <stdint.h>
#ifdef __cplusplus
extern "C" {
#endif
/* kind: 0 u32, 1 s32, 2 u64, 3 s64 (the harness's order); raw = two's complement image of the value */
int vp_vstatic_decode(int kind, const unsigned char *wire, size_t n, uint64_t *raw, size_t *consumed);
int vp_vstatic_encode(int kind, uint64_t raw, unsigned char *out16, size_t *len);
#ifdef __cplusplus
}
#endif
