/* The codecs called with compile-time constants (literals, static const images) in an optimised translation unit: whatever the header
 * does under __builtin_constant_p() / constant folding is part of what is checked. Every probe reports (function, constant, octets or
 * result) to the harness, which recomputes the expectation from the constant at run time by octet arithmetic. */
#include <stdint.h>
#include <string.h>
#include <ufw/binary-format.h>
#include "bf_const.h"

#define CONSTS(X) \
    X(0xdeadbeefcafebabeULL) X(0x0123456789abcdefULL) X(0x8080808080808080ULL) X(0xff00ff00ff00ff00ULL) X(0x00ff00ff00ff00ffULL) \
    X(0x000000ff80000000ULL) X(0x7f80000000000080ULL) X(0xfffffffffffffffeULL) X(0x0000008000000000ULL) X(0x00000000ffff8001ULL) \
    X(0x8000000000000000ULL) X(0x00c0db00dcdd00ffULL) X(0x1ULL) X(0xa55a96693cc30ff0ULL)

#define SET(F, T, N, C) { unsigned char b[8]; memset(b, 0x5c, sizeof b); F(b, (T)(C)); report(#F, (uint64_t)(C), b, N, 0); }
#define SWP(F, T, C)    { report(#F, (uint64_t)(C), 0, 0, (uint64_t)F((T)(C))); }
#define ONE(C) \
    SET(bf_set_u16b, uint16_t, 2, C) SET(bf_set_u16l, uint16_t, 2, C) SET(bf_set_u24b, uint32_t, 3, (C) & 0xffffffULL) SET(bf_set_u24l, uint32_t, 3, (C) & 0xffffffULL) \
    SET(bf_set_u32b, uint32_t, 4, C) SET(bf_set_u32l, uint32_t, 4, C) SET(bf_set_u40b, uint64_t, 5, (C) & 0xffffffffffULL) SET(bf_set_u40l, uint64_t, 5, (C) & 0xffffffffffULL) \
    SET(bf_set_u48b, uint64_t, 6, (C) & 0xffffffffffffULL) SET(bf_set_u56b, uint64_t, 7, (C) & 0xffffffffffffffULL) SET(bf_set_u56l, uint64_t, 7, (C) & 0xffffffffffffffULL) \
    SET(bf_set_u64b, uint64_t, 8, C) SET(bf_set_u64l, uint64_t, 8, C) SET(bf_set_u64n, uint64_t, 8, C) \
    SWP(bf_swap16, uint16_t, C) SWP(bf_swap32, uint32_t, C) SWP(bf_swap64, uint64_t, C)

static const unsigned char IMG1[8] = {0xde, 0xad, 0xbe, 0xef, 0xca, 0xfe, 0xba, 0xbe};
static const unsigned char IMG2[8] = {0x80, 0x00, 0x00, 0x00, 0xff, 0x7f, 0x80, 0x01};

void vp_const_run(vp_const_report report)
{
    CONSTS(ONE)
    /* loads from constant images: name, "constant" = the big-endian reading of the image, result */
    report("bf_ref_u64b", 0xdeadbeefcafebabeULL, IMG1, 8, bf_ref_u64b(IMG1));
    report("bf_ref_u64l", 0xdeadbeefcafebabeULL, IMG1, 8, bf_ref_u64l(IMG1));
    report("bf_ref_u32b", 0xdeadbeefcafebabeULL, IMG1, 4, bf_ref_u32b(IMG1));
    report("bf_ref_u16l", 0xdeadbeefcafebabeULL, IMG1, 2, bf_ref_u16l(IMG1));
    report("bf_ref_u64b", 0x80000000ff7f8001ULL, IMG2, 8, bf_ref_u64b(IMG2));
    report("bf_ref_s32b", 0x80000000ff7f8001ULL, IMG2, 4, (uint64_t)(int64_t)bf_ref_s32b(IMG2));
    report("bf_ref_u56l", 0x80000000ff7f8001ULL, IMG2, 7, bf_ref_u56l(IMG2));
}
