#include <string.h>
#include <ufw/binary-format.h>
#include "shims/bf_table.h"

#define U(W, T, O) \
    static uint64_t r_u##W##O(const void *p) { return (uint64_t)bf_ref_u##W##O(p); } \
    static void *s_u##W##O(void *p, uint64_t v) { return bf_set_u##W##O(p, (T)v); }
#define S(W, T, O) \
    static uint64_t r_s##W##O(const void *p) { return (uint64_t)(int64_t)bf_ref_s##W##O(p); } \
    static void *s_s##W##O(void *p, uint64_t v) { return bf_set_s##W##O(p, (T)(int64_t)v); }
#define ORD(M, W, T) M(W, T, b) M(W, T, l) M(W, T, n)
ORD(U, 16, uint16_t) ORD(U, 24, uint32_t) ORD(U, 32, uint32_t) ORD(U, 40, uint64_t) ORD(U, 48, uint64_t) ORD(U, 56, uint64_t) ORD(U, 64, uint64_t)
ORD(S, 16, int16_t) ORD(S, 24, int32_t) ORD(S, 32, int32_t) ORD(S, 40, int64_t) ORD(S, 48, int64_t) ORD(S, 56, int64_t) ORD(S, 64, int64_t)

#define F32(O) \
    static uint64_t r_f32##O(const void *p) { float f = bf_ref_f32##O(p); uint32_t u; memcpy(&u, &f, 4); return u; } \
    static void *s_f32##O(void *p, uint64_t v) { uint32_t u = (uint32_t)v; float f; memcpy(&f, &u, 4); return bf_set_f32##O(p, f); }
#define F64(O) \
    static uint64_t r_f64##O(const void *p) { double f = bf_ref_f64##O(p); uint64_t u; memcpy(&u, &f, 8); return u; } \
    static void *s_f64##O(void *p, uint64_t v) { double f; memcpy(&f, &v, 8); return bf_set_f64##O(p, f); }
F32(b) F32(l) F32(n) F64(b) F64(l) F64(n)

#define E(K, W, O) { #K #W #O, W, (#K)[0], (#O)[0], r_##K##W##O, s_##K##W##O },
#define EO(K, W) E(K, W, b) E(K, W, l) E(K, W, n)
const struct bf_accessor bf_accessors[] = {
    EO(u, 16) EO(u, 24) EO(u, 32) EO(u, 40) EO(u, 48) EO(u, 56) EO(u, 64)
    EO(s, 16) EO(s, 24) EO(s, 32) EO(s, 40) EO(s, 48) EO(s, 56) EO(s, 64)
    { "f32b", 32, 'f', 'b', r_f32b, s_f32b }, { "f32l", 32, 'f', 'l', r_f32l, s_f32l }, { "f32n", 32, 'f', 'n', r_f32n, s_f32n },
    { "f64b", 64, 'f', 'b', r_f64b, s_f64b }, { "f64l", 64, 'f', 'l', r_f64l, s_f64l }, { "f64n", 64, 'f', 'n', r_f64n, s_f64n },
};
const unsigned bf_accessor_count = sizeof(bf_accessors) / sizeof(bf_accessors[0]);

static uint64_t sw16(uint64_t v) { return bf_swap16((uint16_t)v); }
static uint64_t sw24(uint64_t v) { return bf_swap24((uint32_t)v); }
static uint64_t sw32(uint64_t v) { return bf_swap32((uint32_t)v); }
static uint64_t sw40(uint64_t v) { return bf_swap40(v); }
static uint64_t sw48(uint64_t v) { return bf_swap48(v); }
static uint64_t sw56(uint64_t v) { return bf_swap56(v); }
static uint64_t sw64(uint64_t v) { return bf_swap64(v); }
const struct bf_swapper bf_swappers[] = { {16, sw16}, {24, sw24}, {32, sw32}, {40, sw40}, {48, sw48}, {56, sw56}, {64, sw64} };
const unsigned bf_swapper_count = 7;

static int ir_u24(int64_t v) { return bf_inrange_u24((uint32_t)v); }
static int ir_s24(int64_t v) { return bf_inrange_s24((int32_t)v); }
static int ir_u40(int64_t v) { return bf_inrange_u40((uint64_t)v); }
static int ir_s40(int64_t v) { return bf_inrange_s40(v); }
static int ir_u48(int64_t v) { return bf_inrange_u48((uint64_t)v); }
static int ir_s48(int64_t v) { return bf_inrange_s48(v); }
static int ir_u56(int64_t v) { return bf_inrange_u56((uint64_t)v); }
static int ir_s56(int64_t v) { return bf_inrange_s56(v); }
const struct bf_range bf_ranges[] = {
    {"u24", 24, 'u', ir_u24, 32}, {"s24", 24, 's', ir_s24, 32}, {"u40", 40, 'u', ir_u40, 64}, {"s40", 40, 's', ir_s40, 64},
    {"u48", 48, 'u', ir_u48, 64}, {"s48", 48, 's', ir_s48, 64}, {"u56", 56, 'u', ir_u56, 64}, {"s56", 56, 's', ir_s56, 64},
};
const unsigned bf_range_count = 8;
#if defined(UFW_USE_BUILTIN_SWAP)
const int bf_builtin_swap = 1;
#else
const int bf_builtin_swap = 0;
#endif
