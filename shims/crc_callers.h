#pragma once
#include <stdint.h>
#ifdef __cplusplus
extern "C" {
#endif
uint16_t vp_crc_u16_count32(uint16_t crc, const uint16_t *buf, uint32_t nwords);
uint16_t vp_crc_u16_unsigned(uint16_t crc, const uint16_t *buf, unsigned a, unsigned b);
uint16_t vp_crc_u16_literal31(uint16_t crc, const uint16_t *buf);
uint16_t vp_crc_buffer_u16_count32(const uint16_t *buf, uint32_t nwords);
#ifdef __cplusplus
}
#endif
