/* Utility macros a platform SDK has usually defined by the time an application file includes the ufw headers: Zephyr's
 * <zephyr/sys/util_macro.h> / <zephyr/sys/util.h>, Linux <linux/bits.h>, ESP-IDF. ufw documents Zephyr compatibility for these names
 * (bit-operations.h replaces BIT and BIT_MASK). Force-included in front of the C callers of the `embedded` build variant. */
#ifndef VP_PLATFORM_MACROS_H
#define VP_PLATFORM_MACROS_H
#include <stddef.h>
#define BIT(n) (1UL << (n))
#define BIT64(n) (1ULL << (n))
#define BIT_MASK(n) (BIT(n) - 1UL)
#define BIT64_MASK(n) (BIT64(n) - 1ULL)
#define GENMASK(h, l) (((~0UL) - (1UL << (l)) + 1) & (~0UL >> (63 - (h))))
#define MIN(a, b) (((a) < (b)) ? (a) : (b))
#define MAX(a, b) (((a) > (b)) ? (a) : (b))
#define CLAMP(val, low, high) (((val) <= (low)) ? (low) : MIN(val, high))
#define ARRAY_SIZE(array) (sizeof(array) / sizeof((array)[0]))
#define CONTAINER_OF(ptr, type, field) ((type *)(((char *)(ptr)) - offsetof(type, field)))
#define ROUND_UP(x, align) ((((unsigned long)(x) + ((unsigned long)(align) - 1)) / (unsigned long)(align)) * (unsigned long)(align))
#define KB(x) ((x) << 10)
#define IS_ENABLED(x) 0
#endif
