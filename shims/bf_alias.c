/* Loads through the ufw codecs of memory that the caller filled through pointers of other types (double, long long, float ...).
 * Compiled at -O2 with strict aliasing and without sanitizers: a loader that reads the octets through a typed pointer instead of
 * octet-wise gives the compiler licence to reuse an earlier load across the caller's store.  Each probe stores x, loads, stores y,
 * loads again in one function; the memory comes from malloc (no declared type), so the probes are valid C for a correct loader. */
#include <stdint.h>
#include <string.h>
#include <ufw/binary-format.h>
#include "bf_alias.h"

#define PROBE64(NAME, LOADER, STYPE, RTYPE)                                                   \
    /* the typed view and the codec's raw view arrive as two pointers (in a real program the two live in different modules) */ \
    __attribute__((noinline)) static void NAME##_core(STYPE *sp, const void *wire, STYPE sx, STYPE sy, RTYPE *a, RTYPE *b) \
    {                                                                                        \
        *sp = sx;                                                                            \
        *a = LOADER(wire);                                                                   \
        *sp = sy;                                                                            \
        *b = LOADER(wire);                                                                   \
    }                                                                                        \
    static int NAME(void *mem, uint64_t x, uint64_t y)                                       \
    {                                                                                        \
        STYPE sx, sy; RTYPE a, b;                                                            \
        memcpy(&sx, &x, sizeof sx); memcpy(&sy, &y, sizeof sy);                              \
        NAME##_core((STYPE *)mem, mem, sx, sy, &a, &b);                                      \
        return memcmp(&a, &x, sizeof a) == 0 && memcmp(&b, &y, sizeof b) == 0;               \
    }
/* native-order loaders: the expected value is the memory image itself */
PROBE64(p_u64n_d, bf_ref_u64n, double, uint64_t)
PROBE64(p_u64n_ull, bf_ref_u64n, unsigned long long, uint64_t)
PROBE64(p_s64n_d, bf_ref_s64n, double, int64_t)
PROBE64(p_s64n_ll, bf_ref_s64n, long long, int64_t)
PROBE64(p_f64n_ull, bf_ref_f64n, unsigned long long, double)
PROBE64(p_f64n_ll, bf_ref_f64n, long long, double)
PROBE64(p_u64l_d, bf_ref_u64l, double, uint64_t)
PROBE64(p_s64l_d, bf_ref_s64l, double, int64_t)
PROBE64(p_f64l_ull, bf_ref_f64l, unsigned long long, double)
#define PROBE32(NAME, LOADER, STYPE, RTYPE)                                                   \
    __attribute__((noinline)) static void NAME##_core(STYPE *sp, const void *wire, STYPE sx, STYPE sy, RTYPE *a, RTYPE *b) \
    {                                                                                        \
        *sp = sx;                                                                            \
        *a = LOADER(wire);                                                                   \
        *sp = sy;                                                                            \
        *b = LOADER(wire);                                                                   \
    }                                                                                        \
    static int NAME(void *mem, uint64_t x64, uint64_t y64)                                   \
    {                                                                                        \
        uint32_t x = (uint32_t)x64, y = (uint32_t)y64;                                       \
        STYPE sx, sy; RTYPE a, b;                                                            \
        memcpy(&sx, &x, sizeof sx); memcpy(&sy, &y, sizeof sy);                              \
        NAME##_core((STYPE *)mem, mem, sx, sy, &a, &b);                                      \
        return memcmp(&a, &x, sizeof a) == 0 && memcmp(&b, &y, sizeof b) == 0;               \
    }
PROBE32(p_u32n_f, bf_ref_u32n, float, uint32_t)
PROBE32(p_s32n_f, bf_ref_s32n, float, int32_t)
PROBE32(p_u32l_f, bf_ref_u32l, float, uint32_t)
PROBE32(p_f32n_u, bf_ref_f32n, unsigned int, float)
PROBE32(p_f32n_i, bf_ref_f32n, int, float)
PROBE32(p_f32l_i, bf_ref_f32l, int, float)

/* the caller's storage is an array of narrower words (a uint16_t register file, uint32_t words): one of its words is stored through the
 * typed pointer, then the wider value is loaded through the codec - and the other way round: the codec stores, the caller reads one of
 * its own words back. Expected values are the memory images (little-endian host, big-endian and little-endian codecs). */
#define PROBEW(NAME, LOADER, STORER, WTYPE, BIG)                                                \
    __attribute__((noinline)) static void NAME##_core(WTYPE *cell, void *wire, WTYPE sx, WTYPE sy, uint64_t v, uint64_t *a, uint64_t *b, WTYPE *c) \
    {                                                                                        \
        cell[0] = sx;                                                                        \
        *a = LOADER(wire);                                                                   \
        cell[0] = sy;                                                                        \
        *b = LOADER(wire);                                                                   \
        cell[0] = 0;                                                                         \
        STORER(wire, v);                                                                     \
        *c = cell[0];                                                                        \
    }                                                                                        \
    static int NAME(void *mem, uint64_t x, uint64_t y)                                       \
    {                                                                                        \
        unsigned char img[8]; uint64_t a, b, ea, eb, v = x ^ (y << 1) ^ 0x0123456789abcdefull; WTYPE c, ec;      \
        WTYPE sx = (WTYPE)x, sy = (WTYPE)y;                                                  \
        memset(mem, 0x5a, 8);                                                                \
        memcpy(img, mem, 8); memcpy(img, &sx, sizeof sx); ea = 0; for (int i = 0; i < 8; i++) ea |= (uint64_t)img[BIG ? 7 - i : i] << (8 * i);   \
        memcpy(img, &sy, sizeof sy); eb = 0; for (int i = 0; i < 8; i++) eb |= (uint64_t)img[BIG ? 7 - i : i] << (8 * i);                          \
        for (int i = 0; i < 8; i++) img[BIG ? 7 - i : i] = (unsigned char)(v >> (8 * i));    \
        memcpy(&ec, img, sizeof ec);                                                         \
        NAME##_core((WTYPE *)mem, mem, sx, sy, v, &a, &b, &c);                               \
        return a == ea && b == eb && c == ec;                                                \
    }
PROBEW(p_u64b_w16, bf_ref_u64b, bf_set_u64b, uint16_t, 1)
PROBEW(p_u64l_w16, bf_ref_u64l, bf_set_u64l, uint16_t, 0)
PROBEW(p_u64b_w32, bf_ref_u64b, bf_set_u64b, uint32_t, 1)
PROBEW(p_u64l_w32, bf_ref_u64l, bf_set_u64l, uint32_t, 0)
PROBEW(p_u64n_w16, bf_ref_u64n, bf_set_u64n, uint16_t, 0)

const struct vp_alias_probe vp_alias_probes[] = {
    {"u64b<->uint16_t words", p_u64b_w16}, {"u64l<->uint16_t words", p_u64l_w16}, {"u64b<->uint32_t words", p_u64b_w32}, {"u64l<->uint32_t words", p_u64l_w32}, {"u64n<->uint16_t words", p_u64n_w16},
    {"u64n<-double", p_u64n_d}, {"u64n<-unsigned long long", p_u64n_ull}, {"s64n<-double", p_s64n_d}, {"s64n<-long long", p_s64n_ll},
    {"f64n<-unsigned long long", p_f64n_ull}, {"f64n<-long long", p_f64n_ll}, {"u64l<-double", p_u64l_d}, {"s64l<-double", p_s64l_d}, {"f64l<-unsigned long long", p_f64l_ull},
    {"u32n<-float", p_u32n_f}, {"s32n<-float", p_s32n_f}, {"u32l<-float", p_u32l_f}, {"f32n<-unsigned", p_f32n_u}, {"f32n<-int", p_f32n_i}, {"f32l<-int", p_f32l_i},
};
const unsigned vp_alias_probe_count = sizeof vp_alias_probes / sizeof vp_alias_probes[0];
