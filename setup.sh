#!/bin/sh
# MANIFEST.setup_cmd: toolchain self-test and cache warm-up (offline, from files on disk only).
set -e
cd "$(dirname "$0")"
command -v clang >/dev/null && command -v clang++ >/dev/null && command -v python3 >/dev/null
echo 'int main(){return 0;}' > .setup-probe.cpp
clang++ -std=gnu++17 .setup-probe.cpp -lrapidcheck -o .setup-probe && rm -f .setup-probe .setup-probe.cpp
./check --build-only
