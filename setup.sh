#!/bin/sh
# MANIFEST.setup_cmd: toolchain self-test and cache warm-up (offline, from files on disk only).
set -e
cd "$(dirname "$0")"
command -v clang >/dev/null && command -v clang++ >/dev/null && command -v python3 >/dev/null
# build variants and ambient targets: gcc (gcc variant), lld + llvm-ar-14 (cfi variant), localedef (locale-tr), valgrind (vg), libbsd (altconf)
for tool in gcc ld.lld llvm-ar-14 localedef valgrind; do command -v $tool >/dev/null || { echo "setup: $tool is missing" >&2; exit 2; }; done
test -f /usr/include/bsd/string.h || { echo "setup: libbsd overlay headers are missing" >&2; exit 2; }
echo 'int main(){return 0;}' > .setup-probe.cpp
clang++ -std=gnu++17 .setup-probe.cpp -lrapidcheck -o .setup-probe && rm -f .setup-probe .setup-probe.cpp
./check --build-only
