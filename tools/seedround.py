#!/usr/bin/env python3
"""One round of independently seeded changes, after the sub-agents have delivered /tmp/seed<N>/Cxx/seed/{patch.diff,demo.c,run_demo.sh,NOTES.md}:

  seedround.py confirm <N>   re-confirm every delivered change in fresh worktrees (4 lanes) and keep the confirmed ones as seeded/Cxx-<N>/;
                             removes the agents' worktrees /tmp/seed<N>/Cxx afterwards
  seedround.py asis <N>      evaluate the kept changes of round N against the checks AS THEY STAND at HEAD (scratch git worktree of /verif,
                             so that work in progress in /verif does not count) and record the statuses in each meta.json under
                             "checks_as_they_stood_before_this_round"
Nothing here ever touches /repo's working tree: confirmation uses git worktrees of /repo under /tmp, evaluation uses rsync'ed copies."""
import concurrent.futures as cf, glob, json, os, shutil, subprocess, sys
VERIF = os.path.dirname(os.path.dirname(os.path.abspath(__file__)))
IDS = ["C%02d" % i for i in range(1, 21)]


def confirm(n):
    d = "/tmp/seed%s" % n
    todo = [p for p in IDS if os.path.exists(os.path.join(d, p, "seed", "patch.diff")) and not os.path.isdir(os.path.join(VERIF, "seeded", "%s-%s" % (p, n)))]
    def one(p):
        r = subprocess.run([sys.executable, os.path.join(VERIF, "tools", "seedtest.py"), "confirm", p, os.path.join(d, p, "seed"), "--keep"], stdout=subprocess.PIPE, stderr=subprocess.STDOUT, text=True)
        open(os.path.join(d, p + ".confirm.log"), "w").write(r.stdout)
        lines = r.stdout.strip().splitlines()
        return p, any(l.strip() == "CONFIRMED" for l in lines), lines[-1:]
    with cf.ThreadPoolExecutor(4) as ex:
        for p, ok, last in ex.map(one, todo):
            print(p, "confirmed" if ok else "NOT CONFIRMED", last, flush=True)
    for p in todo:   # only the delivered ones: an agent may still be at work in the others
        subprocess.call(["git", "-C", "/repo", "worktree", "remove", "--force", os.path.join(d, p)], stdout=subprocess.DEVNULL, stderr=subprocess.DEVNULL)
    subprocess.call(["git", "-C", "/repo", "worktree", "prune"])
    print("kept:", len(glob.glob(os.path.join(VERIF, "seeded", "C*-%s" % n))))


def asis(n):
    wt = "/tmp/verif-asis"
    subprocess.call(["git", "-C", VERIF, "worktree", "remove", "--force", wt], stdout=subprocess.DEVNULL, stderr=subprocess.DEVNULL)
    shutil.rmtree(wt, ignore_errors=True)
    subprocess.check_call(["git", "-C", VERIF, "worktree", "add", "--detach", wt, "HEAD"], stdout=subprocess.DEVNULL, stderr=subprocess.DEVNULL)
    head = subprocess.check_output(["git", "-C", VERIF, "rev-parse", "--short", "HEAD"], text=True).strip()
    names = []
    for p in IDS:
        src = os.path.join(VERIF, "seeded", "%s-%s" % (p, n))
        if os.path.isdir(src):
            dst = os.path.join(wt, "seeded", "%s-%s" % (p, n))
            if not os.path.isdir(dst):
                shutil.copytree(src, dst)
            names.append("%s-%s" % (p, n))
    r = subprocess.run([sys.executable, "tools/seedtest.py", "run"] + names, cwd=wt, stdout=subprocess.PIPE, stderr=subprocess.STDOUT, text=True)
    open("/tmp/seed%s-asis.log" % n, "w").write(r.stdout)
    caught = 0
    for name in names:
        a = json.load(open(os.path.join(wt, "seeded", name, "meta.json")))
        st = a["checks"].get("%s:quick" % name.split("-")[0], {}).get("status")
        caught += st == "caught"
        mp = os.path.join(VERIF, "seeded", name, "meta.json")
        m = json.load(open(mp)); m["checks_as_they_stood_before_this_round"] = {"commit": head, "%s:quick" % name.split("-")[0]: st}
        json.dump(m, open(mp, "w"), indent=1)
        print(name, st, flush=True)
    print("as they stood at %s: %d of %d caught" % (head, caught, len(names)))
    subprocess.call(["git", "-C", VERIF, "worktree", "remove", "--force", wt], stdout=subprocess.DEVNULL, stderr=subprocess.DEVNULL)
    shutil.rmtree(wt, ignore_errors=True)
    subprocess.call(["git", "-C", VERIF, "worktree", "prune"])


if __name__ == "__main__":
    if len(sys.argv) == 3 and sys.argv[1] == "confirm":
        confirm(sys.argv[2])
    elif len(sys.argv) == 3 and sys.argv[1] == "asis":
        asis(sys.argv[2])
    else:
        print(__doc__)
