#!/usr/bin/env python3
"""Write the seed corpus of the C09/C07 fuzz target (corpus/C09): raw-mode inputs = octet stream followed by the
trailing configuration octets that FuzzedDataProvider consumes from the end (block_extra: 2 octets, flags: 1 octet)."""
import os, struct
def crc(data, c=0):
    for b in data:
        c ^= b
        for _ in range(8):
            c = (c >> 1) ^ 0xA001 if c & 1 else c >> 1
    return c
def frame(serial, typ, w16, seq, addr, bs, payload=b"", meta=0):
    opt = (1 if w16 else 0) | ((2 | (4 if payload else 0)) if serial else 0)
    h = struct.pack(">HHII", (meta << 12) | (opt << 8) | (typ << 4), seq, addr, bs)
    pl = crc(payload)
    out = h
    if opt & 2:
        c = crc(h)
        if opt & 4: c = crc(struct.pack(">H", pl), c)
        out += struct.pack(">H", c)
    if opt & 4: out += struct.pack(">H", pl)
    return out + payload
def slip(p):
    o = bytearray()
    for b in p:
        o += b"\xdb\xdc" if b == 0xc0 else b"\xdb\xdd" if b == 0xdb else bytes([b])
    return bytes(o) + b"\xc0"
def varint(n):
    o = bytearray()
    while True:
        b = n & 0x7f; n >>= 7
        if n: o.append(b | 0x80)
        else: o.append(b); return bytes(o)
def wire(serial, raw): return slip(raw) if serial else varint(len(raw)) + raw
d = os.path.join(os.path.dirname(os.path.dirname(os.path.abspath(__file__))), "corpus", "C09")
os.makedirs(d, exist_ok=True)
n = 0
for serial in (0, 1):
    for mem16 in (0, 1):
        streams = [
            wire(serial, frame(serial, 0, mem16, 1, 0x10, 2)),
            wire(serial, frame(serial, 2, mem16, 2, 0x20, 3, bytes(range(0xc0, 0xc0 + (6 if mem16 else 3))))),
            wire(serial, frame(serial, 0, mem16, 3, 0x30, 40)) + wire(serial, frame(serial, 15, 0, 0, 0, 0, meta=1)),
            wire(serial, frame(serial, 2, mem16, 4, 0x40, 60 if not mem16 else 30, bytes(60))),
            wire(serial, b"") + wire(serial, frame(serial, 0, 1 - mem16, 5, 0x50, 1)),
            wire(serial, frame(serial, 1, mem16, 6, 0x60, 1, b"\xdb\xc0" if mem16 else b"\xdb")) + wire(serial, frame(serial, 3, 0, 7, 0x70, 4, struct.pack(">I", 0x71), meta=9)),
        ]
        for extra in (63, 20, 200):
            for s in streams:
                flags = 16 | serial | (mem16 << 1) | 4
                open(os.path.join(d, "seed%03d" % n, ), "wb").write(s + struct.pack("<H", extra) + bytes([flags]))
                n += 1
print(n, "seeds written to", d)
