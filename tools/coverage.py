#!/usr/bin/env python3
"""Which lines of the library do the quick tiers actually execute?  (measurement aid, not a check)

  coverage.py C12 [C13 ...]     builds library + harnesses with clang source-based coverage instead of sanitizers (separate cache
                                entries), runs the quick tier, merges the profiles and prints, for the source files the property is
                                anchored in, the functions and line ranges that were never executed.
Unreached code that belongs to a property is a generator-reach gap (DESIGN 7.4-7.6): extend the generator, then look again."""
import glob, json, os, re, shutil, subprocess, sys, tempfile
VERIF = os.path.dirname(os.path.dirname(os.path.abspath(__file__)))
FILES = {  # property -> source files whose coverage matters
    "C01": ["src/registers/core.c"], "C02": ["src/registers/core.c"], "C03": ["src/registers/core.c"], "C04": ["src/registers/core.c"], "C05": ["src/registers/core.c"],
    "C06": ["src/register-protocol.c"], "C07": ["src/register-protocol.c"], "C08": ["src/register-protocol.c"], "C09": ["src/register-protocol.c", "src/endpoints/continuable-sink.c"],
    "C10": ["src/persistent-storage.c"], "C11": ["src/persistent-storage.c"], "C12": ["src/rfc1055.c"], "C13": ["src/length-prefix.c"], "C14": ["src/variable-length-integer.c"],
    "C15": ["include/ufw/binary-format.h"], "C16": ["src/crc-16-arc.c"], "C17": ["src/endpoints/core.c", "src/endpoints/buffer.c", "src/endpoints/instrumentable.c", "src/endpoints/posix.c", "src/endpoints/trivial.c"],
    "C18": ["src/byte-buffer.c"], "C19": ["src/octet-ring.c", "src/ring-buffer-iter.c", "include/ufw/ring-buffer.h", "include/ufw/ring-buffer-iter.h"], "C20": ["src/sx.c"],
}
def main():
    for pid in sys.argv[1:]:
        cov = tempfile.mkdtemp(prefix="vp-cov-", dir="/tmp")
        try:
            env = dict(os.environ, VERIF_COVERAGE=cov)
            r = subprocess.run([os.path.join(VERIF, "check"), pid, "--tier", "quick", "--no-evidence"], cwd=VERIF, env=env, stdout=subprocess.PIPE, stderr=subprocess.STDOUT, text=True)
            raws = glob.glob(os.path.join(cov, "*.profraw"))
            if not raws:
                print(pid, "no profiles written\n", r.stdout[-800:]); continue
            prof = os.path.join(cov, "all.profdata")
            subprocess.check_call(["llvm-profdata", "merge", "-sparse", "-o", prof] + raws)
            bins = [b for b in glob.glob(os.path.join(VERIF, ".cache", "bin-*cov", pid + "-*")) if os.path.isfile(b) and os.access(b, os.X_OK)]
            objs = []
            for b in bins[1:]:
                objs += ["-object", b]
            print("== %s: %d profiles, %d binaries" % (pid, len(raws), len(bins)))
            for f in FILES.get(pid, []):
                path = os.path.join("/repo", f)
                out = subprocess.run(["llvm-cov", "show", bins[0]] + objs + ["-instr-profile=" + prof, path, "--show-line-counts-or-regions=false"], stdout=subprocess.PIPE, stderr=subprocess.DEVNULL, text=True).stdout
                unc, total = [], 0
                for line in out.splitlines():
                    m = re.match(r"\s*(\d+)\|\s*([0-9.kMG]+)?\|(.*)", line)
                    if not m: continue
                    if m.group(2) is None: continue
                    total += 1
                    if m.group(2) == "0": unc.append((int(m.group(1)), m.group(3)))
                print("-- %s: %d of %d instrumented lines never executed" % (f, len(unc), total))
                # group into ranges
                i = 0
                while i < len(unc):
                    j = i
                    while j + 1 < len(unc) and unc[j + 1][0] <= unc[j][0] + 1: j += 1
                    print("   %4d-%-4d %s" % (unc[i][0], unc[j][0], unc[i][1].strip()[:110]))
                    i = j + 1
        finally:
            shutil.rmtree(cov, ignore_errors=True)
            for d in glob.glob(os.path.join(VERIF, ".cache", "*cov*")):
                shutil.rmtree(d, ignore_errors=True) if os.path.isdir(d) else os.unlink(d)
if __name__ == "__main__":
    main()
