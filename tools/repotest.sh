#!/bin/sh
# build /repo/_build and run the pinned suite; prints PASS or FAIL
cmake --build /repo/_build >/tmp/vp-repotest.log 2>&1 || { echo "FAIL (build)"; tail -20 /tmp/vp-repotest.log; exit 1; }
if ctest --test-dir /repo/_build -j8 --timeout 900 >>/tmp/vp-repotest.log 2>&1; then
  n=$(grep -c "^ok " /repo/_build/Testing/Temporary/LastTest.log); echo "PASS ($n TAP oks, $(grep -c '^not ok' /repo/_build/Testing/Temporary/LastTest.log) not ok)"
else
  echo "FAIL"; grep "^not ok" /repo/_build/Testing/Temporary/LastTest.log | head -20; exit 1
fi
