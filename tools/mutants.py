"""Hand-written mutants (each compiles and passes the repository's 902 tests) used to test the checks' sensitivity."""
MUTANTS = [
    # ---- C18
    dict(prop="C18", name="rewind-no-field-update", file="src/byte-buffer.c",
         old="    b->used -= b->offset;\n    b->offset = 0u;\n", new=""),
    dict(prop="C18", name="add-off-by-one", file="src/byte-buffer.c",
         old="if (b->size < (b->used + size))", new="if (b->size <= (b->used + size))"),
    dict(prop="C18", name="atmost-fails-on-zero", file="src/byte-buffer.c",
         old="    const size_t n = size > rest ? rest : size;\n", new="    const size_t n = size > rest ? rest : size;\n    if (n == 0u) return -ENODATA;\n"),
    dict(prop="C18", name="clear-not-zeroing", file="src/byte-buffer.c",
         old="    memset(b->data, 0, b->size);", new="    memset(b->data, 0, b->used);"),
    # ---- C19
    dict(prop="C19", name="evict-no-tail-advance", file="include/ufw/ring-buffer.h",
         old="            if (c->override_if_full)            \\\n                NAME##_advance_tail(c);         \\",
         new="            if (c->override_if_full)            \\\n                c->tail = c->tail;              \\"),
    dict(prop="C19", name="size-off-by-one-wrapped", file="include/ufw/ring-buffer.h",
         old="return ((c->datasize - c->tail) + c->head);     \\", new="return ((c->datasize - c->tail) + c->head - (c->head > 1));\\"),
    dict(prop="C19", name="iter-new-to-old-from-head", file="include/ufw/ring-buffer-iter.h",
         old="(c->head == 0) ? c->datasize - 1 : c->head - 1; \\", new="(c->head == 0) ? c->datasize - 1 : c->head - (c->head < 3); \\"),
]
