"""Hand-written mutants (each compiles and passes the repository's 902 tests) used to test the checks' sensitivity."""
MUTANTS = [
    # ---- C18
    dict(prop="C18", name="rewind-no-field-update", file="src/byte-buffer.c",
         old="    b->used -= b->offset;\n    b->offset = 0u;\n", new=""),
    dict(prop="C18", name="add-off-by-one", file="src/byte-buffer.c",
         old="if (b->size < (b->used + size))", new="if (b->size <= (b->used + size))"),
    dict(prop="C18", name="atmost-fails-on-zero", file="src/byte-buffer.c",
         old="    const size_t n = size > rest ? rest : size;\n", new="    const size_t n = size > rest ? rest : size;\n    if (n == 0u) return -ENODATA;\n"),
    dict(prop="C18", name="clear-not-zeroing", file="src/byte-buffer.c",
         old="    memset(b->data, 0, b->size);", new="    memset(b->data, 0, b->used);"),
    # ---- C19
    dict(prop="C19", name="evict-no-tail-advance", file="include/ufw/ring-buffer.h",
         old="            if (c->override_if_full)            \\\n                NAME##_advance_tail(c);         \\",
         new="            if (c->override_if_full)            \\\n                c->tail = c->tail;              \\"),
    dict(prop="C19", name="size-off-by-one-wrapped", file="include/ufw/ring-buffer.h",
         old="return ((c->datasize - c->tail) + c->head);     \\", new="return ((c->datasize - c->tail) + c->head - (c->head > 1));\\"),
    dict(prop="C19", name="iter-new-to-old-from-head", file="include/ufw/ring-buffer-iter.h",
         old="(c->head == 0) ? c->datasize - 1 : c->head - 1; \\", new="(c->head == 0) ? c->datasize - 1 : c->head - (c->head < 3); \\"),
    # ---- C16
    dict(prop="C16", name="table-entry", file="src/crc-16-arc.c", old="0x71c0, 0x7080, 0xb041, 0x5000,", new="0x71c0, 0x7080, 0xb041, 0x5001,"),
    dict(prop="C16", name="u16-swapped-octets", file="src/crc-16-arc.c",
         old="""#elif defined(SYSTEM_ENDIANNESS_LITTLE)
        crc = crc16_octet(crc, (*buffer) & 0xffu);
        crc = crc16_octet(crc, (*buffer >> 8u) & 0xffu);""",
         new="""#elif defined(SYSTEM_ENDIANNESS_LITTLE)
        crc = crc16_octet(crc, (*buffer >> 8u) & 0xffu);
        crc = crc16_octet(crc, (*buffer) & 0xffu);"""),
    dict(prop="C16", name="buffer-initial-ffff", file="src/crc-16-arc.c",
         old="    return ufw_crc16_arc_u16(CRC16_ARC_INITIAL, buffer, len);", new="    return ufw_crc16_arc_u16(len > 40 ? 1 : CRC16_ARC_INITIAL, buffer, len);"),
    # ---- C14
    dict(prop="C14", name="D21-buffer-end-ignored", file="src/variable-length-integer.c",
         old="        if (i >= rest) {", new="        if (i >= rest + 99) {"),
    dict(prop="C14", name="decode-loop-bound", file="src/variable-length-integer.c",
         old="    for (size_t i = 0u; i < maxoctets; ++i) {\n        if (i >= rest) {", new="    for (size_t i = 0u; i <= maxoctets; ++i) {\n        if (i >= rest) {"),
    dict(prop="C14", name="source-mask-ff", file="src/variable-length-integer.c",
         old="        const unsigned char bits = data & VARINT_DATA_MASK;", new="        const unsigned char bits = data & 0xffu;"),
    dict(prop="C14", name="s32-sign-extended-encode", file="src/variable-length-integer.c",
         old="    return varint_encode(data.u & UINT32_MAX, b);", new="    return varint_encode(data.u, b);"),
    dict(prop="C14", name="length-off-at-boundary", file="src/variable-length-integer.c",
         old="    return varint_u64_length((uint64_t)n);", new="    return varint_u64_length((uint64_t)n) + (n == 0x10000000u);"),
    # ---- C15
    dict(prop="C15", name="swap40-lanes", file="include/ufw/binary-format.h",
         old="           | ((value & 0x00ff000000ull) >> 16u)\n           | ((value & 0x0000ff0000ull))\n           | ((value & 0x000000ff00ull) << 16u)\n           | ((value & 0x00000000ffull) << 32u));",
         new="           | ((value & 0x00ff000000ull) >> 16u)\n           | ((value & 0x0000ff0000ull))\n           | ((value & 0x000000ff00ull) << 16u)\n           | ((value & 0x000000007full) << 32u));"),
    dict(prop="C15", name="s24b-sign-from-bit-22", file="include/ufw/binary-format.h",
         old="    union bf_convert32 data = { .u32 = bf_ref_u24b(ptr) };\n    if (BIT_ISSET(data.u32, BITL(23))) {",
         new="    union bf_convert32 data = { .u32 = bf_ref_u24b(ptr) };\n    if (BIT_ISSET(data.u32, BITL(22))) {"),
    dict(prop="C15", name="inrange-s48-le", file="include/ufw/binary-format.h",
         old="    const int64_t a = (1ull << 47u);\n    return ((value >= (-1 * a)) && (value < a));", new="    const int64_t a = (1ull << 47u);\n    return ((value >= (-1 * a)) && (value <= a));"),
    dict(prop="C15", name="swap32-portable-only", file="include/ufw/binary-format.h",
         old="           | ((value & 0x00ff0000ul) >>  8u)\n           | ((value & 0x0000ff00ul) <<  8u)\n           | ((value & 0x000000fful) << 24u));",
         new="           | ((value & 0x00ff0000ul) >>  8u)\n           | ((value & 0x0000ff00ul) <<  8u)\n           | ((value & 0x0000007ful) << 24u));"),
    dict(prop="C15", name="set-u56n-writes-8", file="include/ufw/binary-format.h",
         old="    dst[5u] = src[5u];\n    dst[6u] = src[6u];\n#else\n    /* Top of file makes sure this can't happen. */\n#endif /* SYSTEM_ENDIANNESS_* */\n    return dst + 7u;",
         new="    dst[5u] = src[5u];\n    dst[6u] = src[6u];\n    dst[7u] = src[7u];\n#else\n    /* Top of file makes sure this can't happen. */\n#endif /* SYSTEM_ENDIANNESS_* */\n    return dst + 7u;"),
    # ---- C12
    dict(prop="C12", name="decoder-swaps-escapes", file="src/rfc1055.c",
         old="        case ESC_EOF: *data = RAW_EOF; break;\n        case ESC_ESC: *data = RAW_ESC; break;", new="        case ESC_EOF: *data = RAW_ESC; break;\n        case ESC_ESC: *data = RAW_EOF; break;"),
    # (staying in NORMAL after an invalid escape only turns the rest of the damaged frame into a bogus frame that ends at the
    #  delimiter - the property does not forbid that; the mutant below loses a well-formed frame instead)
    dict(prop="C12", name="esc-end-searches-for-end", file="src/rfc1055.c",
         old="                    ctx->state = (data == RAW_EOF)\n                        ? RFC1055_NORMAL\n                        : RFC1055_SEARCH_FOR_END;", new="                    ctx->state = RFC1055_SEARCH_FOR_END;"),
    dict(prop="C12", name="no-sof-octet", file="src/rfc1055.c",
         old="        const int rc = sink_put_octet(sink, RAW_EOF);\n        return rc < 0 ? rc : 0;\n    }\n\n    return 0;", new="        return 0;\n    }\n\n    return 0;"),
    dict(prop="C12", name="swallow-sink-error-in-decode", file="src/rfc1055.c",
         old="            MAYBE_RETURN(sink_put_octet(sink, data));\n            break; }", new="            (void)sink_put_octet(sink, data);\n            break; }"),
    dict(prop="C12", name="sof-resync-loses-two", file="src/rfc1055.c",
         old="                    BIT_ISSET(ctx->flags, RFC1055_WITH_SOF)\n                    ? RFC1055_SEARCH_FOR_START\n                    : RFC1055_NORMAL;", new="                    BIT_ISSET(ctx->flags, RFC1055_WITH_SOF)\n                    ? RFC1055_SEARCH_FOR_END\n                    : RFC1055_NORMAL;"),
    dict(prop="C12", name="encode-source-error-as-end", file="src/rfc1055.c",
         old="        if (get == -ENODATA || get == 0) {", new="        if (get == -ENODATA || get == 0 || get == -EIO) {"),
    # ---- C17
    dict(prop="C17", name="D22-source-adapt-returns-0", file="src/endpoints/core.c", old="        rest -= rc;\n    }\n\n    return (ssize_t)n;\n}", new="        rest -= rc;\n    }\n\n    return 0;\n}"),
    dict(prop="C17", name="D23-source-retry-reuses-buf", file="src/endpoints/core.c", old="            once_source_get_chunk(source, data + (n - rest), rest);", new="            once_source_get_chunk(source, data, rest);"),
    dict(prop="C17", name="D23-sink-retry-reuses-buf", file="src/endpoints/core.c", old="            once_sink_put_chunk(sink, data + (n - rest), rest);", new="            once_sink_put_chunk(sink, data, rest);"),
    dict(prop="C17", name="D24-some-aux-forwards-n", file="src/endpoints/core.c", old="sink_put_chunk(sink, buf, (size_t)rc);", new="sink_put_chunk(sink, buf, n);"),
    dict(prop="C17", name="D25-atmost-aux-no-limit", file="src/endpoints/core.c", old="        buffer.used = buffer.offset + n;", new="        buffer.size = n;"),
    dict(prop="C17", name="partial-count-dropped", file="src/endpoints/core.c", old="            return (rest < n) ? (ssize_t)(n - rest) : (ssize_t)rc;", new="            return (ssize_t)rc;"),
    dict(prop="C17", name="eagain-is-hard-in-sink", file="src/endpoints/core.c", old="        if (put == -EINTR || put == -EAGAIN) {", new="        if (put == -EINTR) {"),
    dict(prop="C17", name="n-cbc-off-by-one", file="src/endpoints/core.c", old="    for (size_t i = 0u; i < n; ++i) {\n        const ssize_t rc = sts_cbc(source, sink);", new="    for (size_t i = 0u; i < n + (n > 8u); ++i) {\n        const ssize_t rc = sts_cbc(source, sink);"),
    dict(prop="C17", name="zero-n-accepted", file="src/endpoints/core.c", old="ssize_t\nsink_put_chunk(Sink *sink, const void *buf, size_t n)\n{\n    if (n == 0 || n > SSIZE_MAX) {", new="ssize_t\nsink_put_chunk(Sink *sink, const void *buf, size_t n)\n{\n    if (n > SSIZE_MAX) {"),
]
