#!/usr/bin/env python3
"""Validate MANIFEST.json and evidence/*.json against the schemas (needs python3-vt for jsonschema)."""
import json, glob, sys
import jsonschema
jsonschema.validate(json.load(open('MANIFEST.json')), json.load(open('/root/.vp/MANIFEST.schema.json')))
es = json.load(open('/root/.vp/EVIDENCE.schema.json'))
for f in sorted(glob.glob('evidence/*.json')):
    jsonschema.validate(json.load(open(f)), es)
    print('ok', f)
print('manifest ok')
