#!/usr/bin/env python3
"""Sensitivity test: apply hand-written mutants (tools/mutants.py) to a scratch copy of /repo, run the
quick check of the affected property against it, expect a VIOLATION.   usage: senstest.py [PID ...] [-k name]"""
import os, shutil, subprocess, sys, tempfile
sys.path.insert(0, os.path.dirname(os.path.abspath(__file__)))
from mutants import MUTANTS
VERIF = os.path.dirname(os.path.dirname(os.path.abspath(__file__)))
sel = [a for a in sys.argv[1:] if not a.startswith("-")]
name = None
if "-k" in sys.argv:
    name = sys.argv[sys.argv.index("-k") + 1]
    sel = [s for s in sel if s != name]
tier = "quick"
res = []
for m in MUTANTS:
    if sel and m["prop"] not in sel:
        continue
    if name and name not in m["name"]:
        continue
    d = tempfile.mkdtemp(prefix="vp-mut-", dir="/tmp")
    try:
        subprocess.check_call(["rsync", "-a", "--exclude", "_build", "--exclude", ".git", "/repo/", d + "/"])
        p = os.path.join(d, m["file"])
        s = open(p).read()
        if s.count(m["old"]) != 1:
            res.append((m["prop"], m["name"], "MUTANT-DOES-NOT-APPLY (%d matches)" % s.count(m["old"])))
            print("%s %-40s %s" % res[-1], flush=True)
            continue
        open(p, "w").write(s.replace(m["old"], m["new"]))
        env = dict(os.environ, VERIF_REPO=d)
        r = subprocess.run([os.path.join(VERIF, "check"), m["prop"], "--tier", tier, "--no-evidence"], cwd=VERIF, env=env,
                           stdout=subprocess.PIPE, stderr=subprocess.PIPE, text=True)
        viol = [l for l in r.stdout.splitlines() if l.startswith("VIOLATION")]
        status = "killed" if r.returncode == 1 and viol else ("BUILD/INFRA rc=%d" % r.returncode if r.returncode not in (0, 1) else "SURVIVED")
        res.append((m["prop"], m["name"], status + ("  [" + viol[0][:160] + "]" if viol else "")))
        if status != "killed":
            sys.stderr.write(r.stderr[-1500:])
    finally:
        shutil.rmtree(d, ignore_errors=True)
        shutil.rmtree("/tmp/vp-replays-" + m["prop"], ignore_errors=True)
    print("%s %-40s %s" % res[-1], flush=True)
import json
if not sel and not name:
    json.dump([{"property": r[0], "mutant": r[1], "result": r[2].split("  [")[0], "first_violation": (r[2].split("  [", 1)[1].rstrip("]") if "  [" in r[2] else "")[:200]} for r in res],
              open(os.path.join(VERIF, "tools", "senstest-results.json"), "w"), indent=1)
bad = [r for r in res if not r[2].startswith("killed")]
print("%d mutants, %d not killed" % (len(res), len(bad)))
sys.exit(1 if bad else 0)
