#!/usr/bin/env python3
"""Regenerate DESIGN.md sections 10 (hand-written mutants) and 11 (seeded changes) from tools/mutants.py,
tools/senstest-results.json and seeded/*/meta.json."""
import json, os, re, sys
VERIF = os.path.dirname(os.path.dirname(os.path.abspath(__file__)))
sys.path.insert(0, os.path.join(VERIF, "tools"))
from mutants import MUTANTS
res = {}
rp = os.path.join(VERIF, "tools", "senstest-results.json")
if os.path.exists(rp):
    for r in json.load(open(rp)):
        res[(r["property"], r["mutant"])] = r
out = []
out.append("## 10. Sensitivity results: hand-written mutants\n")
out.append("Each mutant is a small change to ft/ufw that compiles and passes the 902-test suite; `python3 tools/senstest.py` applies it to a\n"
           "scratch copy and runs the *quick* tier of the property's check. \"key\" is the failure key of the first VIOLATION line. The list\n"
           "contains one mutant per repaired defect (re-introducing it) plus the mutants of the round-0 sensitivity plan.\n")
out.append("| property | mutant (tools/mutants.py) | file | result (quick tier) | reported key |")
out.append("|---|---|---|---|---|")
for m in MUTANTS:
    r = res.get((m["prop"], m["name"]))
    key = ""
    if r and r.get("first_violation"):
        k = re.search(r"key=(\S+)", r["first_violation"])
        key = k.group(1) if k else ""
    out.append("| %s | %s | %s | %s | `%s` |" % (m["prop"], m["name"], m["file"].replace("src/", "").replace("include/ufw/", ""), r["result"] if r else "(not run)", key))
out.append("")
out.append("## 11. Independently seeded changes\n")
out.append("Fresh sub-agents were given only the text of one property and a scratch git worktree of /repo (nothing from /verif) and asked for a change that breaks the\n"
           "property while compiling and passing the existing tests, needing something specific to manifest, with a demonstration. Each change was re-confirmed by\n"
           "`tools/seedtest.py confirm` in a fresh worktree (suite passes with it, demonstration fails with it and passes without it) and is kept under\n"
           "`seeded/<id>-<n>/` (patch.diff, demo.c, run_demo.sh, NOTES.md, meta.json). `tools/seedtest.py run` applies each to a scratch copy of /repo and runs the checks.\n")
out.append("| id | breaks | what it changes / what it needs | caught by |")
out.append("|---|---|---|---|")
sd = os.path.join(VERIF, "seeded")
for name in sorted(os.listdir(sd)) if os.path.isdir(sd) else []:
    mp = os.path.join(sd, name, "meta.json")
    if not os.path.exists(mp):
        continue
    m = json.load(open(mp))
    caught = "; ".join("%s %s" % (k, v["status"] + ((" `" + re.search(r"key=(\S+)", v["first_violation"]).group(1) + "`") if v.get("first_violation") and re.search(r"key=(\S+)", v["first_violation"]) else "")) for k, v in sorted(m.get("checks", {}).items()))
    if m.get("not_caught_by_decision"):
        caught += " - not claimed (7.11/7.13): " + m["not_caught_by_decision"][:160] + "..."
    if m.get("missed_because"):
        caught += " - " + m["missed_because"][:200]
    out.append("| %s | %s | %s | %s |" % (name, m["property"], m.get("summary", "").replace("|", "/")[:300], caught))
out.append("")
p = os.path.join(VERIF, "DESIGN.md")
s = open(p).read()
i = s.find("## 10. Sensitivity results")
if i >= 0:
    s = s[:i]
s = s.rstrip() + "\n\n" + "\n".join(out) + "\n"
open(p, "w").write(s)
print("DESIGN.md sections 10/11 regenerated: %d mutants, %d with results" % (len(MUTANTS), len(res)))
