#!/bin/sh
# Runs every quick check on the unchanged tree without touching evidence/; prints one line per check and FAIL at the end if any
# check did not exit 0.  Run this before committing a change to anything shared (support/, model/, props/*.hpp, check).
cd "$(dirname "$0")/.." || exit 2
bad=0
for p in C01 C02 C03 C04 C05 C06 C07 C08 C09 C10 C11 C12 C13 C14 C15 C16 C17 C18 C19 C20; do
  out=$(./check $p --no-evidence 2>&1); rc=$?
  echo "$out" | grep -E "^\[check\] $p quick" | tail -1
  if [ $rc -ne 0 ]; then bad=1; echo "$out" | grep -E "VIOLATION|INFRA" | head -3; echo "  -> $p exit $rc"; fi
done
[ $bad -eq 0 ] && echo "ALL PASS" || echo "FAIL"
exit $bad
