#!/usr/bin/env python3
"""Regenerate MANIFEST.json from props/config.py (run from /verif)."""
import json, os, sys
sys.path.insert(0, os.path.dirname(os.path.dirname(os.path.abspath(__file__))))
from props.config import PROPS, MANIFEST_TEXT

ALL = ["C%02d" % i for i in range(1, 21)]
checks = []
for pid in ALL:
    if pid not in PROPS:
        continue
    P = PROPS[pid]
    T = MANIFEST_TEXT[pid]
    checks.append({
        "property_id": pid,
        "quick_cmd": "./check %s --tier quick" % pid,
        "thorough_cmd": "./check %s --tier thorough" % pid,
        "evidence_file": "/verif/evidence/%s.json" % pid,
        "replay_cmd_template": "./check %s --replay {path}" % pid,
        "engine": T["engine"],
        "level_claimed": {"category": P["level"], "text": T["level_text"], "design_ref": "DESIGN.md section 4, " + pid},
        "level_note": T["level_note"],
        "technique": T["technique"],
    })
man = {
    "version": 1,
    "setup_cmd": "./setup.sh",
    "hooks": {
        "guard": "FT_UFW_VERIF",
        "enable": "every compile of /repo sources by ./check passes -DFT_UFW_VERIF (no code in /repo is guarded by it: no hooks were needed)",
        "baseline_off_cmd": "cmake -S /repo -B /repo/_build -G Ninja -DCMAKE_BUILD_TYPE=RelWithDebInfo && cmake --build /repo/_build && ctest --test-dir /repo/_build -j8 --timeout 900",
        "source_commits": [],
        "add_only": True,
    },
    "engines": [
        {"name": "enum", "path": "props/*_enum.cpp + support/vp.hpp", "kind_free_text": "deterministic bounded-exhaustive generators (smallest case first) with explicit oracles / reference models", "serves_properties": [p for p in ALL if p in PROPS and any(t["name"].startswith("enum") for t in PROPS[p]["targets"])]},
        {"name": "rapidcheck", "path": "props/*_rc.cpp + support/rc.hpp", "kind_free_text": "rapidcheck property-based testing with integrated shrinking, RC_PARAMS seed from VERIF_SEED", "serves_properties": [p for p in ALL if p in PROPS and any(t.get("rapidcheck") for t in PROPS[p]["targets"])]},
        {"name": "libFuzzer", "path": "props/*_fuzz.cpp", "kind_free_text": "coverage-guided fuzzing (clang -fsanitize=fuzzer,address,undefined) with a structure-aware decode layer and the semantic oracle inside the target", "serves_properties": [p for p in ALL if p in PROPS and any(t.get("fuzz") for t in PROPS[p]["targets"])]},
    ],
    "checks": checks,
    "notes": "All checks: cwd /verif, rebuild the sanitized library from /repo's working tree (cache keyed by a content hash), replay saved counterexamples first, then run the engines with VERIF_SEED. Every check runs its harness against several builds of the library compiled from the same working tree (ASan/UBSan release build, debug build with -DDEBUG and assertions, a bare-metal-style build (-funsigned-char -fshort-enums -ffreestanding -std=c99, no swap builtins), -O2, gcc, CMake-style unity build, clang CFI, an alternative toolchain.h), under valgrind, before main(), and - where it matters - under another locale, floating-point mode or stack limit; a violation in any of them is a violation of the property (DESIGN.md 2.3). The tools this needs besides clang/rapidcheck (gcc, lld, llvm-ar-14, localedef, valgrind, libbsd) are probed by setup.sh. See DESIGN.md.",
    "not_applicable": [{"property_id": p, "reason": "check not built yet in this round (planned, see DESIGN.md section 4); the technique applies"} for p in ALL if p not in PROPS],
}
json.dump(man, open("MANIFEST.json", "w"), indent=1)
open("MANIFEST.json", "a").write("\n")
print("MANIFEST.json: %d checks, %d not_applicable" % (len(checks), len(man["not_applicable"])))
