#!/usr/bin/env python3
"""Confirm and evaluate an independently written breaking change.

  seedtest.py confirm <ID> <dir-with-patch.diff+demo>   -> re-confirms in a fresh scratch worktree that (a) the suite passes with
                                                           the patch, (b) the demonstration fails with it, (c) passes without it;
                                                           copies patch/demo to /verif/seeded/<ID>-<n>/ and writes meta.json
  seedtest.py run [name ...] [--tier quick|thorough] [--props C01,C02]
                                                        -> applies each kept patch to a scratch copy of /repo and runs the check(s)
                                                           of the property it breaks (or the listed ones); prints caught / MISSED
"""
import json, os, shutil, subprocess, sys, tempfile

VERIF = os.path.dirname(os.path.dirname(os.path.abspath(__file__)))
SEEDED = os.path.join(VERIF, "seeded")


def sh(cmd, cwd=None, timeout=1800):
    r = subprocess.run(cmd, shell=True, cwd=cwd, stdout=subprocess.PIPE, stderr=subprocess.STDOUT, text=True, errors="replace", timeout=timeout)
    return r.returncode, r.stdout


def suite(wt):
    rc, out = sh("cmake -S . -B _build -G Ninja -DCMAKE_BUILD_TYPE=RelWithDebInfo >/dev/null 2>&1 && cmake --build _build 2>&1 | tail -2 && ctest --test-dir _build -j8 --timeout 900 2>&1 | tail -4", cwd=wt)
    log = os.path.join(wt, "_build/Testing/Temporary/LastTest.log")
    notok = 0
    if os.path.exists(log):
        notok = sum(1 for l in open(log, errors="replace") if l.startswith("not ok"))
    return ("100% tests passed" in out) and notok == 0, out[-400:]


def demo(wt, demodir):
    dst = os.path.join(wt, "seed")
    shutil.rmtree(dst, ignore_errors=True)
    shutil.copytree(demodir, dst)
    rc, out = sh("sh ./run_demo.sh", cwd=dst, timeout=600)
    return rc, out[-600:]


def confirm(pid, src):
    patch = os.path.join(src, "patch.diff")
    assert os.path.exists(patch), "no patch.diff in " + src
    wt = tempfile.mkdtemp(prefix="vp-seedwt-", dir="/tmp")
    os.rmdir(wt)
    res = {}
    try:
        subprocess.check_call(["git", "-C", "/repo", "worktree", "add", "--detach", wt, "HEAD"], stdout=subprocess.DEVNULL, stderr=subprocess.DEVNULL)
        ok0, out0 = suite(wt)
        rc0, dout0 = demo(wt, src)
        res["unpatched"] = {"suite_passes": ok0, "demo_rc": rc0, "demo_tail": dout0[-200:]}
        rc, out = sh("git apply --whitespace=nowarn %s" % patch, cwd=wt)
        if rc != 0:
            print("patch does not apply:", out)
            return None
        ok1, out1 = suite(wt)
        rc1, dout1 = demo(wt, src)
        res["patched"] = {"suite_passes": ok1, "demo_rc": rc1, "demo_tail": dout1[-200:]}
        rcd, files = sh("git diff --stat -- src include | tail -1", cwd=wt)
        res["diffstat"] = files.strip()
    finally:
        subprocess.call(["git", "-C", "/repo", "worktree", "remove", "--force", wt], stdout=subprocess.DEVNULL, stderr=subprocess.DEVNULL)
        shutil.rmtree(wt, ignore_errors=True)
    good = res["unpatched"]["suite_passes"] and res["unpatched"]["demo_rc"] == 0 and res["patched"]["suite_passes"] and res["patched"]["demo_rc"] != 0
    print(json.dumps(res, indent=1))
    print("CONFIRMED" if good else "NOT CONFIRMED")
    return res if good else None


def keep(pid, src, res, needs, summary):
    os.makedirs(SEEDED, exist_ok=True)
    n = 1
    while os.path.exists(os.path.join(SEEDED, "%s-%d" % (pid, n))):
        n += 1
    dst = os.path.join(SEEDED, "%s-%d" % (pid, n))
    os.makedirs(dst)
    for f in os.listdir(src):
        if f in ("patch.diff", "demo.c", "run_demo.sh", "NOTES.md") or f.endswith((".c", ".h", ".sh")):
            shutil.copy(os.path.join(src, f), dst)
    meta = {"property": pid, "summary": summary, "needs_to_manifest": needs,
            "confirmed": {"suite_passes_with_patch": True, "demo_fails_with_patch": True, "demo_passes_without_patch": True,
                          "how": "tools/seedtest.py confirm: fresh git worktree of /repo HEAD under /tmp, cmake+ninja build, ctest, sh run_demo.sh before and after git apply patch.diff",
                          "details": res},
            "checks": {}}
    json.dump(meta, open(os.path.join(dst, "meta.json"), "w"), indent=1)
    print("kept as", dst)
    return dst


def run(names, tier, props):
    out = []
    for name in sorted(os.listdir(SEEDED)):
        d = os.path.join(SEEDED, name)
        if not os.path.isdir(d) or (names and name not in names):
            continue
        meta = json.load(open(os.path.join(d, "meta.json")))
        plist = props or [meta["property"]]
        scratch = tempfile.mkdtemp(prefix="vp-seedrun-", dir="/tmp")
        try:
            subprocess.check_call(["rsync", "-a", "--exclude", "_build", "--exclude", ".git", "/repo/", scratch + "/"])
            rc, o = sh("git apply --whitespace=nowarn --unsafe-paths --directory=%s %s" % (scratch, os.path.join(d, "patch.diff")), cwd="/")
            if rc != 0:
                rc, o = sh("patch -p1 -s < %s" % os.path.join(d, "patch.diff"), cwd=scratch)
            if rc != 0:
                print(name, "PATCH DOES NOT APPLY", o[-300:])
                continue
            for pid in plist:
                env = dict(os.environ, VERIF_REPO=scratch)
                r = subprocess.run([os.path.join(VERIF, "check"), pid, "--tier", tier, "--no-evidence"], cwd=VERIF, env=env, stdout=subprocess.PIPE, stderr=subprocess.PIPE, text=True)
                viol = [l for l in r.stdout.splitlines() if l.startswith("VIOLATION")]
                status = "caught" if r.returncode == 1 and viol else ("INFRA rc=%d" % r.returncode if r.returncode not in (0, 1) else "MISSED")
                print("%-10s %s %-8s %s  %s" % (name, pid, tier, status, viol[0][:170] if viol else ""), flush=True)
                meta["checks"]["%s:%s" % (pid, tier)] = {"status": status, "first_violation": viol[0][:300] if viol else None}
                out.append((name, pid, status))
                if status.startswith("INFRA"):
                    sys.stderr.write(r.stderr[-1500:])
                shutil.rmtree("/tmp/vp-replays-" + pid, ignore_errors=True)
            json.dump(meta, open(os.path.join(d, "meta.json"), "w"), indent=1)
        finally:
            shutil.rmtree(scratch, ignore_errors=True)
    return out


if __name__ == "__main__":
    if len(sys.argv) >= 4 and sys.argv[1] == "confirm":
        pid, src = sys.argv[2], sys.argv[3]
        res = confirm(pid, src)
        if res and "--keep" in sys.argv:
            notes = ""
            np_ = os.path.join(src, "NOTES.md")
            if os.path.exists(np_):
                notes = open(np_, errors="replace").read()
            keep(pid, src, res, notes[:3000], notes.strip().splitlines()[0][:200] if notes.strip() else "")
    elif len(sys.argv) >= 2 and sys.argv[1] == "run":
        tier = "quick"
        props = None
        names = []
        a = sys.argv[2:]
        i = 0
        while i < len(a):
            if a[i] == "--tier":
                tier = a[i + 1]; i += 2
            elif a[i] == "--props":
                props = a[i + 1].split(","); i += 2
            else:
                names.append(a[i]); i += 1
        res = run(names, tier, props)
        missed = [r for r in res if r[2] != "caught"]
        print("%d runs, %d not caught" % (len(res), len(missed)))
    else:
        print(__doc__)
